// Package gen holds the rapid generators shared by the checks. Every random choice is a rapid draw,
// so cases shrink and replay. Any Go string is a legal argument of every string parameter of the
// API under test, so all generators are sound by construction; they differ in how they are biased.
package gen

import (
	"os"
	"strings"

	"pgregory.net/rapid"

	"verif/harness/spec"
)

func pick(t *rapid.T, label string, xs []string) string {
	return xs[rapid.IntRange(0, len(xs)-1).Draw(t, label)]
}

// Int draws an int in [lo,hi].
func Int(t *rapid.T, label string, lo, hi int) int { return rapid.IntRange(lo, hi).Draw(t, label) }

// Chance is true with probability about num/den.
func Chance(t *rapid.T, label string, num, den int) bool {
	return rapid.IntRange(0, den-1).Draw(t, label) < num
}

// Pick draws one element.
func Pick(t *rapid.T, label string, xs []string) string { return pick(t, label, xs) }

// ---------------------------------------------------------------------------------------------
// G-soup

// Atoms is the weighted pool of everything the state machine branches on.
var Atoms = []string{
	// schemes
	"http", "https", "ws", "wss", "ftp", "file", "foo", "a", "x-y.z+1", "HTTP", "FiLe", "hTtPs", "9x", "gopher",
	// code points whose Unicode case mapping lands in ASCII (Kelvin sign, dotted capital I, long s, Angstrom)
	"\u212a", "\u0130", "\u017f", "\u212b", "\u212aa:", "htt\u212a:", "f\u0130le:", "\u0130:", "\u0131", "\u212a",
	// digit and hex-digit lookalikes from other scripts (fullwidth, Arabic-Indic), huge numbers
	"\uff11", "\uff10", "\uff41", "\uff26", "\u0663", ":\uff18\uff10", "[::\uff41]", "[::1.2.3.18446744073709551617]", "18446744073709551617", "1.2.3.18446744073709551617",
	// letters / signs that only LOOK like scheme characters (fullwidth, Cyrillic, Greek), Unicode spaces and BOM
	"\uff21\uff22:", "\u0430:", "\u0391b:", "a\uff0bb:", "a\u2010b:", "\ufeff", "\ufeffhttp://h/", "\u0085", "\u00a0", "\u2003", "\u3000", "\u200b",
	// code points whose low byte (U+01xx) or low 16 bits (U+100xx) equal an ASCII character the code
	// branches on: a conversion to byte / uint16 somewhere would alias them
	"\U00000130", "\U00000131", "\U00000138", "\U00000139", "\U0000013a", "\U0000012e", "\U0000012f", "\U00000125", "\U00000141", "\U00000146", "\U00000161", "\U00000166", "\U0000015b", "\U0000015d", "\U00000140", "\U0000013f", "\U00000123", "\U0000015c", "\U00000178", "\U00000120", "\U00000109", "\U0000010a", "\U0000012d", "\U0000012b", "\U0000013d", "\U00000126", "\U0000017c",
	"\U00010030", "\U00010031", "\U00010039", "\U0001003a", "\U0001002e", "\U0001002f", "\U00010025", "\U00010061", "\U00010066", "\U00010040", "\U0001003f", "\U00010023",
	// the first code points above ASCII (C1 controls, NBSP boundary)
	"\u0080", "\u0081", "\u009f", "a\u0080b.com",
	// delimiters
	":", ":", ":", "/", "/", "/", "//", "//", "\\", "\\", "\\\\", "?", "?", "#", "#", "@", "@", "[", "]", ";", "=", "&",
	// dot segments
	".", "..", "%2e", "%2E", "%2e.", ".%2E", "%2e%2E", "/.", "/..", "/./", "/../", "...", "%2f", "%5c",
	// drive letters
	"C:", "c|", "C|", "C|/", "/C:", "/c|/", "C:\\", "Z:", "/a/C:/..", "/C:/..", "/a/C|/../",
	// ... and the neighbours of the ASCII letters, which are not drive letters ('@' 'A'..'Z' '[' ... '`' 'a'..'z' '{')
	"@:", "[:", "_:", "`|", "{:", "^:", "]|", "/_:/..", "/[:/..", "/@|/../", "/{:/..", "1:", "/1|/..",
	// ... and letters that are not ASCII (a drive letter is an ASCII alpha)
	"\u00e9:", "\u00c9|", "/\u00e9:/..", "\u0131:", "\uff23:",
	// percent escapes
	"%", "%4", "%41", "%00", "%zz", "%2", "%25", "%2541", "%g1", "%C3%A9", "%FF", "%E2%82", "%20", "%09", "%0A", "%7f", "%80",
	"%5B", "%5D", "%3A", "%2F", "%40", "%23", "%3F", "%3a", "%2580", "%25FF", "%25C3", "%25c3%25a9", "%252580",
	// ... and the neighbours of the hex digits ('/' '0'..'9' ':', '@' 'A'..'F' 'G', '`' 'a'..'f' 'g')
	"%G1", "%1G", "%1g", "%@1", "%1@", "%`a", "%a`", "%:0", "%0:", "%/0", "%0/",
	// ports
	"80", "443", "21", "0", "00080", "65535", "65536", "99999999999999999999999999", ":80", ":443", ":0", ":", ":21", "8080", "+80", "-1",
	// IPv4 shapes
	"1", "0x", "0X1f", "017", "08", "255", "256", "4294967295", "4294967296", "1.2.3.4", "127.1", "1.2.3", "1.2.3.4.5", "0x7f.1",
	"1.2.3.4.", "1..2", "0xffffffff", "0x100000000", "192.168.0.257", "1.2.3.08", "+1", "-1", "0x+f", "1e3", "0.", ".0", "0..",
	// IPv6 shapes
	"::", "[::1]", "[1:2:3:4:5:6:7:8]", "[::1.2.3.4]", "[1::]", "[1::8]", "[0:0:1:0:0:0:1:0]", "[::ffff:1.2.3.4]", "[1:2:3:4:5:6:7]",
	"[1:2:3:4:5:6:7:8:9]", "[:1]", "[1:]", "[::1", "::1]", "[[::1]]", "[::1]]", "[::1]:80", "[g::1]", "[1::2::3]", "[::1.2.3]", "[::01.2.3.4]", "[::1.2.3.256]", "[]", "[::FFFF]",
	"[1:2:3:4:5:6:1.2.3.4.5]", "[1:2:3:4:5:6:7:8:]", "[1:2:3:4:5:6:7:8.9]", "[1:2:3:4:5:6:1.2.3.4:5]",
	// hosts
	"localhost", "LOCALHOST", "example.com", "EXAMPLE.COM", "h", "a.b", "a..b", "a.b.", ".", "xn--", "XN--nxasmq6b", "xn--a", "xn--ls8h", "www.",
	"é", "ß", "ǆ", "ﬁ", "０", "。", "．", "≠", "\u00ad", "\u200c", "\u200d", "א", "١", "💩", "\ufdd0", "\uffff", "\ufffd", "\U0010ffff", "\u2028", "\u00a0", "\u3000", "ｅｘ",
	// userinfo
	"u", "p", "u:p@", "user@", ":@", "@@", "u:p:q@", "%40@",
	// C0, DEL, space, tab/newline
	" ", "  ", "\t", "\n", "\r", "\x00", "\x01", "\x1f", "\x7f", "\x0b", "\x0c",
	// edges of the percent-encode sets
	"\"", "<", ">", "`", "{", "}", "|", "^", "'", "!", "$", "*", "(", ")", ",", "+", "-", "_", "~",
	// invalid UTF-8
	"\xff", "\xe2\x82", "\x80", "\xc3", "\xf0\x9f\x92", "\xc0\xaf", "\xed\xa0\x80",
	// HTML-entity-ish text that harvested links carry
	"&amp;", "?a=1&amp;b=2", "&#38;", "&lt;",
	// misc words
	"a b", "x", "X", "e", "f", "path", "q=1", "a=b&c=d", "frag", "..a", "a..",
}

// Soup draws 0..max atoms and concatenates them.
func Soup(t *rapid.T, label string, max int) string {
	n := rapid.IntRange(0, max).Draw(t, label+".n")
	var sb strings.Builder
	for i := 0; i < n; i++ {
		sb.WriteString(pick(t, label, Atoms))
	}
	return sb.String()
}

// ---------------------------------------------------------------------------------------------
// G-url: grammar generator with spelling noise

var specialSchemes = []string{"http", "https", "ws", "wss", "ftp", "file"}
var otherSchemes = []string{"foo", "a", "x-y.z+1", "git+ssh", "data", "mailto", "javascript", "blob", "about", "non-special", "sc", "h2"}

var hostDomains = []string{"localhost.", "LOCALHOST.", ".localhost", "localhost..", "localhost.localdomain", "example.com", "h", "a.b.c", "EXAMPLE.org", "localhost", "www.example.com.", "xn--nxasmq6b.com", "faß.de", "日本語.jp", "a_b", "a-b.c-d", "x", "test", "ex%41mple.com", "%65xample", "Ｇｏ.com", "a.b..c", "-a-", "1a", "a1.2b"}
var hostIPv4 = []string{"1.2.3.4", "127.0.0.1", "0x7f.1", "017.0.0.1", "4294967295", "0xffffffff", "1.2.3", "1.256", "256.1.1.1", "1.2.3.4.5", "1.2.3.4.", "0x", "0x.0x", "08", "1.2.3.08", "0300.0250.0.01", "999999999999", "1..2.3", "0XaBc", "1.0x", "%31.2.3.4", "１.2.3.4", "a.1", "a.0x1", "a.1.", "1.a", "+1", "-1", "0x-1", "1.2.3.+4"}
var hostIPv6 = []string{"[::1]", "[1:2:3:4:5:6:7:8]", "[::]", "[1::]", "[::1.2.3.4]", "[0:0:0:0:0:0:0:0]", "[1:0:0:2:0:0:0:3]", "[1:0:0:0:2:0:0:3]", "[A:b::C]", "[0001:0::1]", "[::ffff:c0a8:1]", "[1:2:3:4:5:6:1.2.3.4]", "[1:2:3:4:5:6:7]", "[1:2:3:4:5:6:7:8:9]", "[:1]", "[1::2::3]", "[12345::]", "[::g]", "[::1.2.3]", "[::1.2.3.4.5]", "[::01.2.3.4]", "[::1.2.3.256]", "[1:2:3:4:5:6:7:1.2.3.4]", "[::1", "[[::1]]", "[::1]]", "[]", "[::%31]", "[::1]x", "[1:2:3:4:5:6::7:8]", "[1::8:]", "[0:0:1:0:0:1:0:0]",
	"[1:2:3:4:5:6:1.2.3.4.5]", "[1:2:3:4:5:6:1.2.3.4.]", "[1:2:3:4:5:6:1.2.3.4:5]", "[1:2:3:4:5:6:7:8:]", "[1:2:3:4:5:6:7:8.]", "[1:2:3:4:5:6:7:8.9]", "[1:2:3:4:5:6:7::]", "[::1:2:3:4:5:6:7:8]", "[1:2:3:4:5:6:7:8::]", "[1:2:3:4:5:6:255.255.255.255.255]", "[::1.2.3.4.5.6.7.8]"}
var hostBad = []string{"a\u200db.example", "a\u200cb", "xn--a.example", "\u05d01.com", "a\u0301\u0301.b", "\u0301a.com", "xn--0.com", "a\u2028b.com", "ab--c\u00e9", "", "a b", "a<b", "a>b", "a^b", "a|b", "a%b", "a%00b", "%", "a\x7fb", "a\x00b", "a%2Fb", "a%3Ab", "a%40b", "a%5Bb", "\xff", "%ff", "%C3", "xn--", "xn--a.b", "a%23b", "a%3Fb", "a%5Cb", "a%20b", "a%7Cb", " ", "%00"}
var userinfos = []string{"u@", "u:p@", ":p@", "u:@", ":@", "@", "u%40:p%3A@", "us er:pa ss@", "a:b:c@", "a@b@", "é:ü@", "%@", "u;v=1:p/?@", "[u]:{p}@", "\x00:\x7f@", "u\\:p@"}
var ports = []string{"", ":", ":80", ":443", ":21", ":0", ":8080", ":00080", ":65535", ":65536", ":99999999999999999999", ":8a", ":-1", ":+1", ": 80", ":80 ", ":0x50", ":٨٠"}
var segs = []string{"", "a", "b", ".", "..", "%2e", "%2E%2e", ".%2e", "a b", "a%20b", "%41", "%", "%zz", "c:", "C|", "é", "\xff", "a;b=c", "{x}", "`", "\"", "<>", "?", "%3F", "%23", "%2F", "~", "a\\b", "index.html", "*", "'", "|", "^", "[", "]", "@", ":", "$&+,=", "\x7f", "\x01", "\u2028", "..a", "...", "%252e"}
var queries = []string{"", "?", "?q", "?a=b", "?a=b&c=d", "?a=1&a=2", "?%41", "?'", "?\"<>", "? ", "?#", "?a+b", "?%", "?%zz", "?é", "?\xff", "??", "?a=b=c", "?&&", "?a&=&b", "?`{}", "?/path?x", "?%2B%26%3D", "?\x00", "?a\tb"}
var frags = []string{"", "#", "#f", "#a b", "#\"<>`", "#{}", "#%41", "#%", "#é", "##", "#?x", "#/p", "#\x00", "#\x7f", "#'", "#|", "#a#b", "#\xff", "# ", "#\t"}

// Host draws a host string of a random kind (valid or deliberately invalid).
func Host(t *rapid.T, label string) string {
	switch rapid.IntRange(0, 9).Draw(t, label+".kind") {
	case 0, 1, 2:
		return pick(t, label, hostDomains)
	case 3, 4:
		return pick(t, label, hostIPv4)
	case 5, 6:
		return pick(t, label, hostIPv6)
	case 7:
		return pick(t, label, hostBad)
	case 8:
		return Soup(t, label, 3)
	default:
		return pick(t, label, hostDomains) + "." + pick(t, label, hostIPv4)
	}
}

// Path draws a path made of 0..5 segments.
func Path(t *rapid.T, label string) string {
	n := rapid.IntRange(0, 5).Draw(t, label+".n")
	var sb strings.Builder
	for i := 0; i < n; i++ {
		if rapid.IntRange(0, 7).Draw(t, label+".bs") == 0 {
			sb.WriteByte('\\')
		} else {
			sb.WriteByte('/')
		}
		sb.WriteString(pick(t, label, segs))
	}
	return sb.String()
}

func flipCase(t *rapid.T, label, s string) string {
	b := []byte(s)
	for i, c := range b {
		if (c >= 'a' && c <= 'z') || (c >= 'A' && c <= 'Z') {
			if rapid.IntRange(0, 3).Draw(t, label) == 0 {
				b[i] = c ^ 0x20
			}
		}
	}
	return string(b)
}

// URL draws an absolute-URL-looking string from the grammar.
func URL(t *rapid.T, label string) string {
	var sb strings.Builder
	special := rapid.IntRange(0, 9).Draw(t, label+".special") < 6
	var scheme string
	if special {
		scheme = pick(t, label+".scheme", specialSchemes)
	} else {
		scheme = pick(t, label+".scheme", otherSchemes)
	}
	if rapid.IntRange(0, 5).Draw(t, label+".case") == 0 {
		scheme = flipCase(t, label+".flip", scheme)
	}
	sb.WriteString(scheme)
	sb.WriteByte(':')
	// slash style
	style := rapid.IntRange(0, 9).Draw(t, label+".slashes")
	authority := true
	switch style {
	case 0:
		authority = false // no slashes: opaque path (non-special) or relative-ish (special)
	case 1:
		sb.WriteString("/")
		authority = special
	case 2:
		sb.WriteString("\\\\")
	case 3:
		sb.WriteString("///")
	case 4:
		sb.WriteString("/\\")
	default:
		sb.WriteString("//")
	}
	if authority {
		if rapid.IntRange(0, 3).Draw(t, label+".ui") == 0 {
			sb.WriteString(pick(t, label+".userinfo", userinfos))
		}
		sb.WriteString(Host(t, label+".host"))
		if rapid.IntRange(0, 2).Draw(t, label+".hasport") == 0 {
			sb.WriteString(pick(t, label+".port", ports))
		}
		sb.WriteString(Path(t, label+".path"))
	} else {
		// opaque-ish or path-only
		if rapid.IntRange(0, 1).Draw(t, label+".opq") == 0 {
			sb.WriteString(pick(t, label+".seg", segs))
			sb.WriteString(Path(t, label+".path"))
		} else {
			sb.WriteString(Soup(t, label+".opaque", 3))
		}
	}
	if rapid.IntRange(0, 2).Draw(t, label+".hasq") == 0 {
		sb.WriteString(pick(t, label+".query", queries))
	}
	if rapid.IntRange(0, 2).Draw(t, label+".hasf") == 0 {
		sb.WriteString(pick(t, label+".frag", frags))
	}
	s := sb.String()
	return Noise(t, label+".noise", s)
}

var wrap = []string{" ", "\t", "\n", "\x00", "\x1f", "  ", "\r\n", "\x0c", "\u0085", "\u00a0", "\u2003", "\u2028", "\u3000", "\ufeff", "\x7f", "\u200b", " \u00a0 "}
var inject = []string{"\t", "\n", "\r"}

// Noise adds surrounding C0/space and embedded tab/newline with small probability.
func Noise(t *rapid.T, label, s string) string {
	k := rapid.IntRange(0, 15).Draw(t, label)
	switch {
	case k == 0:
		s = pick(t, label+".pre", wrap) + s
	case k == 1:
		s = s + pick(t, label+".post", wrap)
	case k == 2:
		s = pick(t, label+".pre", wrap) + s + pick(t, label+".post", wrap)
	case k <= 4 && len(s) > 0:
		pos := rapid.IntRange(0, len(s)).Draw(t, label+".pos")
		s = s[:pos] + pick(t, label+".inj", inject) + s[pos:]
	}
	return s
}

// ---------------------------------------------------------------------------------------------
// G-ref

var refShapes = []string{"./d:/..", "a/C:/../x", "/a/b/c:/..", "\u212aa:x", "f\u0130le:x", "\u017f:x", "", "#", "#f", "?", "?q", "?q#f", "/", "/p", "/p/q?x#y", "//", "//h", "//h/p", "//h:81/p", "//u:p@h/p", "\\\\h", "\\\\h\\p", "/\\h", "\\/h",
	"p", "p/q", "./", "./p", "../", "..", "../..", "../../x", ".", "./.", "a/../b", "%2e%2e/x", ".%2E/", "C|/x", "C:", "c:/x", "/C|/x", "/c:", "C|", "C|\\x", "//C|/x", "///x", "////x",
	"?#", "#?", " ", "\t", "x y", ";p", "a:", ":a", "1:", "/..", "/../..", "/./", "//h?q", "//h#f", "//@", "//:80", "//[::1]", "//1.2.3.4", "//h\\p", "\\", "\\p", "/\\", "\\\\", "//h:", "?\xff", "#\xff", "p\x00",
	"file:", "file:p", "file:/p", "file://h/p", "file:C|/x", "file:..", "file:?q", "file:#f", "file:\\\\h",
	"_:/..", "/^:/../x", "/[:/..", "/`|/..", "/{:/../y", "/@:/..", "/1:/..", "\u00e9:/x", "/\u00c9|/..", "\uff23:", "\u0131|/y"}

// Ref draws a reference; baseScheme (may be "") is used for "same scheme" shapes.
func Ref(t *rapid.T, label string, baseScheme string) string {
	k := rapid.IntRange(0, 9).Draw(t, label+".kind")
	switch {
	case k <= 4:
		return pick(t, label, refShapes)
	case k == 5:
		return pick(t, label, refShapes) + pick(t, label+".more", segs)
	case k == 6 && baseScheme != "":
		// scheme-relative special quirk: "http:p", "http:/p", "http://h"
		return flipCase(t, label+".flip", baseScheme) + ":" + pick(t, label, refShapes)
	case k == 7:
		return pick(t, label+".oscheme", append(append([]string{}, specialSchemes...), otherSchemes...)) + ":" + pick(t, label, refShapes)
	case k == 8:
		return Noise(t, label+".noise", pick(t, label, refShapes))
	default:
		return Path(t, label+".path") + pick(t, label+".q", queries) + pick(t, label+".f", frags)
	}
}

// ---------------------------------------------------------------------------------------------
// G-wpt

var wptCorpus, wptBases, wptHrefs, wptValues []string

func init() {
	seen := map[string]bool{}
	add := func(dst *[]string, s string) {
		if len(s) > 300 {
			return
		}
		if !seen[s] {
			seen[s] = true
		}
		*dst = append(*dst, s)
	}
	for _, v := range spec.Vectors() {
		add(&wptCorpus, v.Input)
		if v.Base != nil {
			add(&wptBases, *v.Base)
		}
		if !v.Failure {
			add(&wptHrefs, v.Href)
		}
	}
	for _, sv := range spec.SetterVectors() {
		add(&wptHrefs, sv.Href)
		add(&wptValues, sv.New_value)
	}
	wptBases = dedup(wptBases)
	wptHrefs = dedup(wptHrefs)
	wptValues = dedup(wptValues)
	wptCorpus = dedup(wptCorpus)
}

func dedup(xs []string) []string {
	seen := map[string]bool{}
	var out []string
	for _, x := range xs {
		if !seen[x] {
			seen[x] = true
			out = append(out, x)
		}
	}
	return out
}

// WPTInput draws an input from the pinned WPT vectors.
func WPTInput(t *rapid.T, label string) string { return pick(t, label, wptCorpus) }

// WPTBase draws a base from the pinned WPT vectors.
func WPTBase(t *rapid.T, label string) string { return pick(t, label, wptBases) }

// WPTHref draws a parsed href (urltestdata hrefs and setters_tests hrefs).
func WPTHref(t *rapid.T, label string) string { return pick(t, label, wptHrefs) }

// WPTValue draws a setter new_value from setters_tests.json.
func WPTValue(t *rapid.T, label string) string { return pick(t, label, wptValues) }

// Mutate applies 0..3 insert/delete/replace edits with soup atoms at byte offsets.
func Mutate(t *rapid.T, label, s string) string {
	n := rapid.IntRange(0, 3).Draw(t, label+".n")
	for i := 0; i < n; i++ {
		pos := rapid.IntRange(0, len(s)).Draw(t, label+".pos")
		switch rapid.IntRange(0, 2).Draw(t, label+".op") {
		case 0:
			s = s[:pos] + pick(t, label+".atom", Atoms) + s[pos:]
		case 1:
			end := pos + rapid.IntRange(1, 3).Draw(t, label+".len")
			if end > len(s) {
				end = len(s)
			}
			s = s[:pos] + s[end:]
		default:
			end := pos + rapid.IntRange(1, 3).Draw(t, label+".len")
			if end > len(s) {
				end = len(s)
			}
			s = s[:pos] + pick(t, label+".atom", Atoms) + s[end:]
		}
	}
	return s
}

// ---------------------------------------------------------------------------------------------
// G-any

// Any draws an arbitrary string: unicode-heavy or raw bytes.
func Any(t *rapid.T, label string) string {
	if rapid.IntRange(0, 1).Draw(t, label+".kind") == 0 {
		return rapid.StringN(0, 40, 160).Draw(t, label)
	}
	return string(rapid.SliceOfN(rapid.Byte(), 0, 60).Draw(t, label))
}

// ---------------------------------------------------------------------------------------------
// mixtures

// Input is C01's input mixture: G-url 35 % / G-wpt 30 % / G-soup 25 % / G-any 10 %.
// SizeSteps: repetition counts on both sides of the sizes at which implementations switch
// representation or algorithm (small-array fast paths, 8/16-bit counters, pre-sized buffers, chunked
// loops). The larger steps are drawn in the thorough tier only (a 4097-segment input costs as much as
// thousands of ordinary cases).
var SizeSteps = []int{7, 8, 9, 12, 13, 15, 16, 17, 31, 32, 33, 63, 64, 65, 127, 128, 129, 253, 254, 255, 256, 257}
var sizeStepsThorough = []int{511, 512, 513, 1023, 1024, 1025, 4095, 4096, 4097}

var sizedShapes = [][3]string{
	{"http://h", "/a", ""}, {"http://h", "/a", "/../x"}, {"http://h/", "../", "x"}, {"foo://h", "/b", "?q#f"}, {"file://", "/c", ""}, {"http://h", "/.", "/x"}, {"http://h", "//", "x"},
	{"http://", "a.", "com/"}, {"http://", "a", ".com/"}, {"http://", "1.", "1/"}, {"foo://", "h", "/"}, {"http://u", "u", "@h/"}, {"http://u:", "p", "@h/"}, {"http://", "@", "h/"},
	{"http://h/?x=0", "&a=1", ""}, {"http://h/?", "a", "=b"}, {"http://h/?", "&", "a"}, {"http://h/?", "%41", ""}, {"http://h/#", "f", ""}, {"http://h/", "é", ""}, {"http://h/", "%", ""}, {"http://h/", "\t", "x"},
	{"a:", "b", ""}, {"a:", " ", "?q"}, {"", "a", "://h/"}, {"http://h:", "0", "80/"}, {"http://[", "1:", ":]/"}, {"", " ", "http://h/"}, {"http://h/", " ", ""}, {"", "../", ""}, {"", "a/", ""}, {"?", "a=b&", ""}, {"#", "f", ""},
}

func sizeStep(t *rapid.T, label string) int {
	steps := SizeSteps
	if os.Getenv("VERIF_TIER_NAME") == "thorough" && rapid.IntRange(0, 3).Draw(t, label+".big") == 0 {
		steps = sizeStepsThorough
	}
	return steps[rapid.IntRange(0, len(steps)-1).Draw(t, label+".k")]
}

// Sized draws prefix + unit×k + suffix with k from SizeSteps: inputs of the size classes that random
// small inputs never reach.
func Sized(t *rapid.T, label string) string {
	sh := sizedShapes[rapid.IntRange(0, len(sizedShapes)-1).Draw(t, label+".shape")]
	return sh[0] + strings.Repeat(sh[1], sizeStep(t, label)) + sh[2]
}

func Input(t *rapid.T, label string) string {
	if rapid.IntRange(0, 299).Draw(t, label+".sized") == 0 {
		return Sized(t, label)
	}
	k := rapid.IntRange(0, 19).Draw(t, label+".mix")
	switch {
	case k < 7:
		return URL(t, label)
	case k < 13:
		return Mutate(t, label+".mut", WPTInput(t, label))
	case k < 18:
		return Soup(t, label, 12)
	default:
		return Any(t, label)
	}
}

// BaseString draws a base string (parseable or not).
func BaseString(t *rapid.T, label string) string {
	k := rapid.IntRange(0, 19).Draw(t, label+".mix")
	switch {
	case k < 7:
		return URL(t, label)
	case k < 11:
		return WPTBase(t, label)
	case k < 15:
		return Mutate(t, label+".mut", WPTHref(t, label))
	case k < 17:
		return pick(t, label, ExtremeStarts)
	case k < 19:
		return Soup(t, label, 8)
	default:
		return Any(t, label)
	}
}

// ExtremeStarts are structurally extreme parseable URLs.
var ExtremeStarts = []string{"a:b", "a:b ?q#f", "a:b  #f", "a: ", "data:x ?", "a:b ?#", "a:b  ?&&", "a:b ?&#f", "foo:o  ?=", "foo://", "foo://h", "foo:/.//p", "foo:/p", "foo:///x", "foo://h/p?q#f", "file:///C:/", "file:///C:/a/b", "file://h/C|/", "file:///", "file:", "file://h", "file:///_:/a/b", "file:///[:/", "file:///^:/a",
	"file:///c:/..", "http://u:p@h:81/p?q#f", "https://1.2.3.4/", "http://[::1]:8/", "http://h", "http://h/a/b/c/d?x#y", "ws://h:81/", "wss://u@h/", "ftp://h:22/p", "http://h/?", "http://h/#", "http://h/?#",
	"data:text/plain,hi", "mailto:a@b", "javascript:alert(1) ", "blob:http://h/x", "about:blank", "sc://é/", "sc:// /", "non-special:x/?#", "a:/", "a://", "a:/.//", "a:/..//x", "http://xn--nxasmq6b/", "http://h//a//", "file:///C|/x", "foo://h:0/", "http://h:0/"}

// SchemeOf returns the lower-cased scheme prefix of s if it syntactically has one, else "".
func SchemeOf(s string) string {
	for i := 0; i < len(s); i++ {
		c := s[i]
		switch {
		case c >= 'a' && c <= 'z', c >= 'A' && c <= 'Z':
		case i > 0 && (c >= '0' && c <= '9' || c == '+' || c == '-' || c == '.'):
		case c == ':' && i > 0:
			return strings.ToLower(s[:i])
		default:
			return ""
		}
	}
	return ""
}

// InputWithBase draws an (input, base, hasBase) triple per C01: no base 40 %; with a base, half of the
// inputs are references conditioned on the base's scheme.
func InputWithBase(t *rapid.T) (input, base string, hasBase bool) {
	hasBase = rapid.IntRange(0, 9).Draw(t, "hasBase") >= 4
	if !hasBase {
		return Input(t, "input"), "", false
	}
	base = BaseString(t, "base")
	if rapid.IntRange(0, 15).Draw(t, "selfRef") == 0 {
		return base, base, true // a URL resolved against itself (byte-identical strings)
	}
	if rapid.IntRange(0, 1).Draw(t, "refOrInput") == 0 {
		input = Ref(t, "ref", SchemeOf(base))
	} else {
		input = Input(t, "input")
	}
	return
}

// ---------------------------------------------------------------------------------------------
// setter values

var protoVals = []string{"http", "https", "ws", "wss", "ftp", "file", "foo", "a", "http:", "https://x", "file:", "HTTP", "h ttp", "", ":", "1a", "a+b-c.d", "é", "http\x00", "ws:x", "b:", "FILE", "gopher", "foo:bar", "\thttp", "ht\ntp"}
var userVals = []string{"", "u", "user", "a b", "a:b", "a@b", "a/b", "é", "%41", "%", "%zz", "\x00", "\x7f", "a;=b", "[x]", "{y}", "|^", "\xff", "~!$&'()*+,", "\"<>`", "?#", "\\", "\t"}
var hostVals = []string{"localhost.", "", "h", "example.com", "EXAMPLE.com", "h:82", "h:", ":83", "h:80", "h:443", "h:65536", "h:8x", "1.2.3.4", "0x7f.1", "1.2.3.256", "[::2]", "[::2]:84", "[::2", "[[::2]]", "[::2]]", "localhost", "LocalHost",
	"a b", "a%20b", "a/b", "a?b", "a#b", "a\\b", "a@b", "u@h", "h/p", "h?q", "h#f", "xn--", "é", "x:y", " h", "h ", "\th", "%00", "a<b", "C:", "c|", "+1", "-1", "1.2.3.4.5", "0x", "a.0", "a.1.", "..", "a..", "%2e", "h:00085", "h:99999999999999999999", "\xff", "[1::8]x", "h:81/p", "h:81?q"}
var portVals = []string{"", "0", "80", "443", "21", "8080", "65535", "65536", "00080", "8a", "a8", "-1", "+1", " 80", "80 ", "99999999999999999999", "8/0", "8?0", "8#0", "8\\0", "٨", "\t80", "8\n0", "0x50", "443x", ":80", "1 2"}
var pathVals = []string{"/_:/..", "/^|/../x", "/[:/..", "/{:/..", "/@:/..", "/a/C:/../x", "/a/b/d:/..", "a/C|/../y", "/x/c:/../../z", "", "/", "a", "/a", "/a/b", "//", "//x", "/.//x", "/..", "/../a", ".", "..", "/%2e", "/%2E%2e/x", "a b", "/a b", "?", "#", "/a?b", "/a#b", "\\", "\\a\\b", "/C|/x", "C|", "/c:/..", "é", "%", "%zz", "/\x00", "/\xff", "/{}`\"<>", "/a/./b/../c", "///", " /", "/ ", "\t/x", "/x\n"}
var searchVals = []string{"", "?", "q", "?q", "??q", "a=b", "?a=b&c=d", "a b", "a+b", "'", "\"<>", "#", "a#b", "%41", "%", "%zz", "é", "\xff", "\x00", "\ta", "a\nb", "&", "=", "a=b=c", "&&a", " ", "?a ", "%2B%26", "`{}", "/?"}
var hashVals = []string{"", "#", "f", "#f", "##f", "a b", "\"<>`", "{}", "%41", "%", "%zz", "é", "\xff", "\x00", "\tf", "f\nx", "?", "/", " ", "#f ", "'|^"}

var SetterPools = [spec.NumSetters][]string{protoVals, userVals, userVals, hostVals, hostVals, portVals, pathVals, searchVals, hashVals}

// SetterValue draws a value for setter number which: own pool 55 %, WPT new_values 15 %, another
// setter's pool (cross-component strings) 10 %, soup 15 %, arbitrary 5 %.
func SetterValue(t *rapid.T, label string, which int) string {
	if rapid.IntRange(0, 299).Draw(t, label+".sized") == 0 {
		unit := pick(t, label+".unit", []string{"a", "/a", "a.", "&a=1", "%41", "/..", "0", "é", " ", "@", ":"})
		return strings.Repeat(unit, sizeStep(t, label))
	}
	k := rapid.IntRange(0, 19).Draw(t, label+".mix")
	switch {
	case k < 11:
		return pick(t, label, SetterPools[which])
	case k < 14:
		return WPTValue(t, label)
	case k < 16:
		return pick(t, label, SetterPools[rapid.IntRange(0, spec.NumSetters-1).Draw(t, label+".other")])
	case k < 19:
		return Soup(t, label, 4)
	default:
		return Any(t, label)
	}
}

// StartURL draws a start URL string for setter histories: WPT hrefs 45 %, grammar 35 %, extreme 20 %.
func StartURL(t *rapid.T, label string) string {
	k := rapid.IntRange(0, 19).Draw(t, label+".mix")
	switch {
	case k < 9:
		return WPTHref(t, label)
	case k < 16:
		return URL(t, label)
	default:
		return pick(t, label, ExtremeStarts)
	}
}

// LowByteAliases: code points U+01xx / U+100xx whose low byte / low 16 bits are ASCII digits, hex
// letters and delimiters (see the atom pool).
var LowByteAliases = []string{"\U00000130", "\U00000131", "\U00000138", "\U00000139", "\U0000013a", "\U0000012e", "\U0000012f", "\U00000125", "\U00000141", "\U00000146", "\U00000161", "\U00000166", "\U0000015b", "\U0000015d", "\U00000140", "\U0000013f", "\U00000123", "\U0000015c", "\U00000178", "\U00000120", "\U00000109", "\U0000010a", "\U0000012d", "\U0000012b", "\U0000013d", "\U00000126", "\U0000017c", "\U00010030", "\U00010031", "\U00010039", "\U0001003a", "\U0001002e", "\U0001002f", "\U00010025", "\U00010061", "\U00010066", "\U00010040", "\U0001003f", "\U00010023"}
