package main

var commonAssumptions = []string{
	"exploration, not proof: the property held on every generated case of this run; absence of violations beyond the explored cases is not established",
	"rapid v1.3.0 generators are a pure function of the shard seeds derived from VERIF_SEED; the checked code is rebuilt from the repository working tree on every run",
}

func assume(xs ...string) []string { return append(append([]string{}, xs...), commonAssumptions...) }

const modelAssumption = "the reference model (harness/spec) is a faithful transcription of the WHATWG URL Standard snapshot of 24 May 2023; it reproduces every pinned WPT parse and setter vector on each run (self-check), and the UTS #46 mapping of non-ASCII / ACE labels is delegated to the implementation's own ToASCII as the property allows"

var configs = map[string]config{
	"C01": {Tests: "^TestC01$", QuickChecks: 60000, ThoroughChecks: 600000, QuickShards: 8, ThoroughShards: 16,
		Fuzz: []string{"FuzzC01"}, FuzzSeconds: 90,
		Assumptions: assume(modelAssumption, "inputs are bounded to a few hundred bytes; the empty base string means 'no base' as in the package API")},
	"C03": {Tests: "^TestC03$", QuickChecks: 40000, ThoroughChecks: 400000, QuickShards: 8, ThoroughShards: 16,
		Assumptions: assume("the reference model is used only to compute the exemption (states where the standard's own algorithms do not round-trip); the obligation itself is a model-free round trip", "histories are bounded to 8 setter calls")},
	"C04": {Tests: "^TestC04$", QuickChecks: 40000, ThoroughChecks: 400000, QuickShards: 8, ThoroughShards: 16,
		Assumptions: assume("the validity predicate is written from the property statement and the standard's definitions of the percent-encode and forbidden code point sets; an empty-but-present query or fragment is not visible through Search()/Hash(), so the composition accepts both spellings", "histories are bounded to 10 steps")},
	"C05": {Tests: "^TestC05$", QuickChecks: 40000, ThoroughChecks: 300000, QuickShards: 8, ThoroughShards: 16,
		Assumptions: assume(modelAssumption, "histories are bounded to 8 setter calls")},
	"C19": {Tests: "^TestC19$", QuickChecks: 40000, ThoroughChecks: 400000, QuickShards: 8, ThoroughShards: 16,
		Assumptions: assume("expected values are recomputed from Hostname, Port, Protocol and Href only; the six special schemes and their default ports are those of the standard (default parser)", "histories are bounded to 10 steps")},
	"C06": {Tests: "^TestC06$", QuickChecks: 40000, ThoroughChecks: 400000, QuickShards: 8, ThoroughShards: 16,
		Assumptions: assume("model-free: the laws relate several runs of the implementation to each other; 'without a scheme' is decided on the reference text after the parser's own trimming and tab/newline removal", "the empty base string means 'no base' as in the package API")},
	"C07": {Tests: "^TestC07$", QuickChecks: 60000, ThoroughChecks: 600000, QuickShards: 8, ThoroughShards: 16,
		Assumptions: assume(modelAssumption, "host strings are drawn over an alphabet without authority delimiters, so the text between '//' and '/' is the host; value-first expectations are computed from the drawn 32-bit value, independently of any number parser")},
	"C08": {Tests: "^TestC08", QuickChecks: 50000, ThoroughChecks: 500000, QuickShards: 8, ThoroughShards: 16,
		Assumptions: assume(modelAssumption, "the canonical serializer and the expansion used as value oracle are written independently of the model in harness/props/c08.go; the 256 zero/non-zero shapes are enumerated completely, other address values are sampled")},
	"C09": {Tests: "^TestC09$", QuickChecks: 30000, ThoroughChecks: 300000, QuickShards: 8, ThoroughShards: 16,
		Assumptions: assume("the UTS #46 mapping itself is taken as given (property wording); spellings vary only characters whose literal and escaped forms are both inside the host (no '%', tab/LF/CR or authority delimiter in the decoded host)", "the C07 sub-case uses the reference model's IPv4 parser")},
	"C10": {Tests: "^TestC10", QuickChecks: 30000, ThoroughChecks: 300000, QuickShards: 8, ThoroughShards: 16,
		Assumptions: assume("the tables are the set predicates in harness/spec/encode.go, written from the standard's definitions; the exhaustive part covers every code point and byte for the six named sets of the statement", "string laws that are only valid for sets without '%' and ASCII hex digits (idempotence, decode(encode(s)) = decode(s)) are evaluated for such sets only; invalid UTF-8 is compared modulo the U+FFFD substitution the API performs")},
	"C11": {Tests: "^TestC11$", QuickChecks: 40000, ThoroughChecks: 300000, QuickShards: 8, ThoroughShards: 16,
		Assumptions: assume("list semantics and the form-urlencoded parser are written from the standard (harness/props/c11.go, harness/spec/encode.go); names are ordered by Go string comparison, and sort cases mixing supplementary-plane characters with U+E000..U+FFFF (where UTF-16 code unit order differs) are not judged; invalid UTF-8 is compared after collapsing runs of U+FFFD", "the whole ordered list is read through Iterate on a twin object because Iterate writes back to the URL")},
	"C12": {Tests: "^TestC12$", QuickChecks: 30000, ThoroughChecks: 300000, QuickShards: 8, ThoroughShards: 16,
		Assumptions: assume("the list of a handle is read through Has/Get/GetAll for all names in play and through String() compared with a twin's serialization of the expected list (Iterate is avoided because it writes back to the URL)", "the expected list after SetSearch is the reference form-urlencoded parse of the stored query; histories whose decoded lists contain invalid UTF-8 are not judged through getters")},
	"C13": {Tests: "^TestC13$", QuickChecks: 20000, ThoroughChecks: 200000, QuickShards: 8, ThoroughShards: 16,
		Assumptions: assume("a side whose parameter list was never materialised is observed through its getters only until the end of the history, because looking at the list would itself create the lazily created state the scenario is about", "the isolated twin is a fresh parse of the same string with the same operations")},
	"C15": {Tests: "^TestC15$", QuickChecks: 40000, ThoroughChecks: 400000, QuickShards: 8, ThoroughShards: 16,
		Assumptions: assume("'marked as a failure' is checked for errors returned by the default and the reporting parser; for the two fail-on-validation-error modes, whose purpose is to return non-fatal validation errors, the check is that a failure-marked error implies the default parser fails too (DESIGN §7.3)", "the documented type set is the list of constants exported by errors/codes.go; the missing-scheme classification is tied to the reference model's failure state")},
	"C16": {Tests: "^TestC16$", QuickChecks: 50000, ThoroughChecks: 400000, QuickShards: 8, ThoroughShards: 16,
		Assumptions: assume(modelAssumption, "an option's trigger is decided on the input text (after the parser's own trimming and tab/newline removal) and deliberately conservatively: when in doubt the neutrality clause is skipped, never failed", "options outside the statement's list (encoding override, host callbacks, skip-trailing-slash-normalization, fail-on-validation-error) are not part of this check; sort order of names with invalid UTF-8 or mixing supplementary-plane with U+E000..U+FFFF is not judged")},
	"C17": {Tests: "^TestC17$", QuickChecks: 30000, ThoroughChecks: 300000, QuickShards: 8, ThoroughShards: 16,
		Assumptions: assume("for GoogleSafeBrowsing and Semantic the statement quantifies over the ordinary-web-URL grammar only; credentials are unreserved characters written literally and parameter names are read as non-empty (the empty-name case is the recorded finding KF-C17-empty-pair, DESIGN §7.7)", "a first parse that fails makes the case vacuous, except that URLs of the web grammar must be accepted")},
	"C18": {Tests: "^TestC18$", QuickChecks: 30000, ThoroughChecks: 250000, QuickShards: 8, ThoroughShards: 16,
		Assumptions: assume("equivalence classes are generated constructively: one abstract web URL, two independently drawn spellings using only the variations the statement lists; decoding-free profiles get only the subset the URL Standard itself normalises", "a dot segment inserted at the very end is only used when the URL ends in a slash anyway (otherwise it would add one, which is not a spelling difference)")},
	"C02": {Tests: "^TestC02$", QuickChecks: 15000, ThoroughChecks: 150000, QuickShards: 8, ThoroughShards: 16,
		Assumptions: assume("'any parser configuration constructible from the public options' means options given non-nil values of their parameter types and total callback functions; BasicParser with a state override is exercised only through the setters; SearchParams handles come from SearchParams() / Clone (DESIGN §7.8)", "termination is decided by a 20 s per-case watchdog whose suspicion is confirmed by re-running the single case in a fresh process with a 120 s limit; a time budget hit is otherwise inconclusive, never a violation", "arguments are bounded to about 16 KB")},
	"C14": {Tests: "^TestC14$", QuickChecks: 1200, ThoroughChecks: 8000, QuickShards: 8, ThoroughShards: 16, Race: true,
		Assumptions: assume("the Go race detector is happens-before based: it reports two conflicting unsynchronised accesses whenever both occur in the run, independent of timing; interleavings are those the Go scheduler produced, not an enumeration", "'only read' = pure getters, Clone and use as a base; the first SearchParams() call on a shared URL hands out a mutable handle and is not in the concurrent operation set (DESIGN §7.4)", "a reported race is confirmed by replaying the program in a fresh process (the detector reports each race once per process); programs are not minimised further")},
	"C20": {Tests: "^TestC20(Fixed)?$", QuickChecks: 40, ThoroughChecks: 300, QuickShards: 8, ThoroughShards: 16, StmtProbe: true,
		Assumptions: assume("growth is measured, not proved: deterministic counters (bytes allocated, allocations, statements executed in the library) at n, 4n, 16n (n = 1000 for the fixed families; 500 for generated families in the quick tier); a super-linear term that only dominates beyond 16 K repetitions, or work inside dependencies that neither allocates nor executes repository statements, is not seen", "the verdict needs an exponent above 1.5 at the largest pair and above 1.4 at the pair below (linear with a logarithmic factor and amortised growth stay below 1.35 on this code; quadratic measures about 2.0)")},
}
