package main

var commonAssumptions = []string{
	"exploration, not proof: the property held on every generated case of this run; absence of violations beyond the explored cases is not established",
	"rapid v1.3.0 generators are a pure function of the shard seeds derived from VERIF_SEED; the checked code is rebuilt from the repository working tree on every run",
}

func assume(xs ...string) []string { return append(append([]string{}, xs...), commonAssumptions...) }

const modelAssumption = "the reference model (harness/spec) is a faithful transcription of the WHATWG URL Standard snapshot of 24 May 2023; it reproduces every pinned WPT parse and setter vector on each run (self-check), and the UTS #46 mapping of non-ASCII / ACE labels is delegated to the implementation's own ToASCII as the property allows"

var configs = map[string]config{
	"C01": {Tests: "^TestC01$", QuickChecks: 60000, ThoroughChecks: 600000, QuickShards: 8, ThoroughShards: 16,
		Fuzz: []string{"FuzzC01"}, FuzzSeconds: 90,
		Assumptions: assume(modelAssumption, "inputs are bounded to a few hundred bytes; the empty base string means 'no base' as in the package API")},
	"C03": {Tests: "^TestC03$", QuickChecks: 40000, ThoroughChecks: 400000, QuickShards: 8, ThoroughShards: 16,
		Assumptions: assume("the reference model is used only to compute the exemption (states where the standard's own algorithms do not round-trip); the obligation itself is a model-free round trip", "histories are bounded to 8 setter calls")},
	"C04": {Tests: "^TestC04$", QuickChecks: 40000, ThoroughChecks: 400000, QuickShards: 8, ThoroughShards: 16,
		Assumptions: assume("the validity predicate is written from the property statement and the standard's definitions of the percent-encode and forbidden code point sets; an empty-but-present query or fragment is not visible through Search()/Hash(), so the composition accepts both spellings", "histories are bounded to 10 steps")},
	"C05": {Tests: "^TestC05$", QuickChecks: 40000, ThoroughChecks: 300000, QuickShards: 8, ThoroughShards: 16,
		Assumptions: assume(modelAssumption, "histories are bounded to 8 setter calls")},
	"C19": {Tests: "^TestC19$", QuickChecks: 40000, ThoroughChecks: 400000, QuickShards: 8, ThoroughShards: 16,
		Assumptions: assume("expected values are recomputed from Hostname, Port, Protocol and Href only; the six special schemes and their default ports are those of the standard (default parser)", "histories are bounded to 10 steps")},
}
