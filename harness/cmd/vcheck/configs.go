package main

var commonAssumptions = []string{
	"exploration, not proof: the property held on every generated case of this run; absence of violations beyond the explored cases is not established",
	"rapid v1.3.0 generators are a pure function of the shard seeds derived from VERIF_SEED; the checked code is rebuilt from the repository working tree on every run",
}

func assume(xs ...string) []string { return append(append([]string{}, xs...), commonAssumptions...) }

const modelAssumption = "the reference model (harness/spec) is a faithful transcription of the WHATWG URL Standard snapshot of 24 May 2023; it reproduces every pinned WPT parse and setter vector on each run (self-check), and the UTS #46 mapping of non-ASCII / ACE labels is delegated to the implementation's own ToASCII as the property allows"

var configs = map[string]config{
	"C01": {Tests: "^TestC01$", QuickChecks: 60000, ThoroughChecks: 600000, QuickShards: 4, ThoroughShards: 16,
		Fuzz: []string{"FuzzC01"}, FuzzSeconds: 90,
		Assumptions: assume(modelAssumption, "inputs are bounded to a few hundred bytes; the empty base string means 'no base' as in the package API")},
}
