// Command vcheck is the driver behind /verif/check: it rebuilds the property test binary from the
// current working tree of the repository, runs the model self-check and the known-finding witnesses,
// runs the rapid property in seed-sharded processes (and, in the thorough tier, the native fuzz
// target), merges the shard statistics into /verif/evidence/<id>.json and prints the verdict lines.
//
// Exit status: 0 held on everything explored; 1 violation (a "VIOLATION property=<id> replay=<path>"
// line was printed); 2 inconclusive / harness error (never a verdict).
package main

import (
	"bytes"
	"encoding/binary"
	"encoding/json"
	"flag"
	"fmt"
	"os"
	"os/exec"
	"path/filepath"
	"regexp"
	"runtime"
	"sort"
	"strconv"
	"strings"
	"sync"
	"time"

	"verif/harness/core"
)

type config struct {
	Tests          string // -test.run regexp of the rapid tests of this property
	QuickChecks    int    // rapid checks per shard, quick tier
	ThoroughChecks int    // rapid checks per shard, thorough tier
	QuickShards    int
	ThoroughShards int
	Race           bool     // build with -race
	Fuzz           []string // native fuzz targets (thorough tier only)
	FuzzSeconds    int      // wall-clock slice per fuzz target
	Assumptions    []string
	Env            []string // extra environment for the shards
	StmtProbe      bool     // C20: build cmd/c20probe with -cover and feed its statement counts to shard 0
}

var verifDir, repoDir string

// outDir is where evidence/ and replays/ are written: /verif normally, a scratch directory under
// .work when the driver is self-testing against a patched copy of the repository (VERIF_SELFTEST),
// so that a self-test never overwrites real evidence.
var outDir string

func main() {
	tier := flag.String("tier", os.Getenv("VERIF_TIER"), "quick or thorough")
	replay := flag.String("replay", "", "replay one saved case")
	seedFlag := flag.String("seed", os.Getenv("VERIF_SEED"), "seed")
	keep := flag.Bool("keep", false, "keep the work directory")
	flag.CommandLine.Parse(reorder(os.Args[1:]))
	if flag.NArg() != 1 {
		fmt.Fprintln(os.Stderr, "usage: check <property id> [--tier quick|thorough] [--replay path] [--seed n]")
		os.Exit(2)
	}
	id := flag.Arg(0)
	cfg, ok := configs[id]
	if !ok {
		fmt.Fprintf(os.Stderr, "unknown property %q\n", id)
		os.Exit(2)
	}
	if *tier == "" {
		*tier = "quick"
	}
	if *tier != "quick" && *tier != "thorough" {
		fmt.Fprintf(os.Stderr, "bad tier %q\n", *tier)
		os.Exit(2)
	}
	seed := int64(1)
	if *seedFlag != "" {
		n, err := strconv.ParseInt(*seedFlag, 10, 64)
		if err != nil {
			fmt.Fprintf(os.Stderr, "bad seed %q\n", *seedFlag)
			os.Exit(2)
		}
		seed = n
	}
	verifDir = os.Getenv("VERIF_DIR")
	if verifDir == "" {
		verifDir = "/verif"
	}
	repoDir = os.Getenv("VERIF_REPO")
	if repoDir == "" {
		repoDir = "/repo"
	}
	os.Setenv("VERIF_DIR", verifDir)
	outDir = verifDir
	if os.Getenv("VERIF_SELFTEST") != "" {
		outDir = filepath.Join(verifDir, ".work", "selftest-out")
	}

	work := filepath.Join(verifDir, ".work", fmt.Sprintf("%s-%d", id, os.Getpid()))
	if err := os.MkdirAll(work, 0o755); err != nil {
		fatal2("mkdir: %v", err)
	}
	code := run(id, cfg, *tier, seed, work, *replay)
	if !*keep {
		os.RemoveAll(work)
	}
	os.Exit(code)
}

// reorder moves flags in front of positional arguments so that "check C01 --tier quick" works.
func reorder(args []string) []string {
	var flags, pos []string
	for i := 0; i < len(args); i++ {
		a := args[i]
		if strings.HasPrefix(a, "-") {
			flags = append(flags, a)
			if !strings.Contains(a, "=") && a != "--keep" && a != "-keep" && i+1 < len(args) {
				i++
				flags = append(flags, args[i])
			}
		} else {
			pos = append(pos, a)
		}
	}
	return append(flags, pos...)
}

func fatal2(format string, args ...interface{}) {
	fmt.Fprintf(os.Stderr, "INCONCLUSIVE: "+format+"\n", args...)
	os.Exit(2)
}

func goEnv() []string {
	env := os.Environ()
	env = append(env, "GOFLAGS=-mod=mod", "GOPROXY=off", "GOSUMDB=off", "GOTOOLCHAIN=local", "CGO_ENABLED=1")
	return env
}

// build compiles the props test binary against the repository working tree.
func build(work string, race bool) (string, error) {
	harness := filepath.Join(verifDir, "harness")
	bin := filepath.Join(work, "props.test")
	args := []string{"test", "-c", "-o", bin}
	if race {
		args = append(args, "-race")
	}
	if repoDir != "/repo" {
		// self-test on a scratch copy: generate a modfile whose replace points there
		mod, err := os.ReadFile(filepath.Join(harness, "go.mod"))
		if err != nil {
			return "", err
		}
		mod = bytes.ReplaceAll(mod, []byte("=> /repo"), []byte("=> "+repoDir))
		mf := filepath.Join(work, "go.mod")
		if err := os.WriteFile(mf, mod, 0o644); err != nil {
			return "", err
		}
		sum, _ := os.ReadFile(filepath.Join(harness, "go.sum"))
		_ = os.WriteFile(filepath.Join(work, "go.sum"), sum, 0o644)
		args = append(args, "-modfile="+mf)
	}
	args = append(args, "./props")
	cmd := exec.Command("go", args...)
	cmd.Dir = harness
	cmd.Env = goEnv()
	out, err := cmd.CombinedOutput()
	if err != nil {
		return "", fmt.Errorf("go %s: %v\n%s", strings.Join(args, " "), err, out)
	}
	return bin, nil
}

func mix(seed int64, id string, shard int) uint64 {
	x := uint64(seed)*0x9e3779b97f4a7c15 + uint64(shard+1)*0xbf58476d1ce4e5b9
	for _, c := range []byte(id) {
		x = (x ^ uint64(c)) * 0x100000001b3
	}
	x ^= x >> 31
	x *= 0x94d049bb133111eb
	x ^= x >> 29
	x &= (1 << 62) - 1
	if x == 0 {
		x = 1 // rapid treats 0 as "random"
	}
	return x
}

type shardResult struct {
	stats  *core.Stats
	hashes []uint64
	out    string
	err    error
	exit   int
}

func runShard(bin string, cfg config, id string, checks int, seed uint64, shard, shards int, work string, timeout time.Duration) shardResult {
	out := filepath.Join(work, fmt.Sprintf("shard-%d.json", shard))
	args := []string{"-test.run", cfg.Tests, "-test.timeout", timeout.String(), "-test.count=1",
		"-rapid.checks=" + strconv.Itoa(checks), "-rapid.seed=" + strconv.FormatUint(seed, 10), "-rapid.nofailfile", "-rapid.shrinktime=20s"}
	cmd := exec.Command(bin, args...)
	cmd.Dir = work
	cmd.Env = append(os.Environ(), "VERIF_OUT="+out, "VERIF_SHARD="+strconv.Itoa(shard), "VERIF_SHARDS="+strconv.Itoa(shards), "VERIF_CHECKS="+strconv.Itoa(checks),
		"VERIF_SHARD_SEED="+strconv.FormatUint(seed, 10), "VERIF_WORK="+work)
	cmd.Env = append(cmd.Env, cfg.Env...)
	if cfg.Race {
		rl := filepath.Join(work, fmt.Sprintf("race-%d", shard))
		cmd.Env = append(cmd.Env, "GORACE=halt_on_error=0 log_path="+rl, "VERIF_RACE_LOG="+rl)
	}
	var buf bytes.Buffer
	cmd.Stdout, cmd.Stderr = &buf, &buf
	err := cmd.Run()
	res := shardResult{out: buf.String(), err: err}
	if ee, ok := err.(*exec.ExitError); ok {
		res.exit = ee.ExitCode()
	}
	data, rerr := os.ReadFile(out)
	if rerr == nil {
		var st core.Stats
		if json.Unmarshal(data, &st) == nil {
			res.stats = &st
		}
	}
	if hb, herr := os.ReadFile(out + ".hashes"); herr == nil {
		res.hashes = make([]uint64, len(hb)/8)
		for i := range res.hashes {
			res.hashes[i] = binary.LittleEndian.Uint64(hb[8*i:])
		}
	}
	return res
}

var replayLine = regexp.MustCompile(`^REPLAY (\S+) (FAIL|KNOWN|PASS|ERROR) ?(.*)$`)

type replayOutcome struct {
	status string // FAIL KNOWN PASS ERROR
	known  []string
	msg    string
}

// replayOne replays a single file in its own process, optionally with a shorter per-case time limit.
func replayOne(bin, work, path, limit string) (map[string]*replayOutcome, string, error) {
	return replayManyEnv(bin, work, []string{path}, false, limit)
}

// replayMany runs saved cases in one fresh process.
func replayMany(bin, work string, paths []string, withSelfCheck bool) (map[string]*replayOutcome, string, error) {
	return replayManyEnv(bin, work, paths, withSelfCheck, "")
}

func replayManyEnv(bin, work string, paths []string, withSelfCheck bool, limit string) (map[string]*replayOutcome, string, error) {
	runre := "^TestReplay$"
	if withSelfCheck {
		runre = "^(TestModelSelfCheck|TestReplay)$"
	}
	cmd := exec.Command(bin, "-test.run", runre, "-test.timeout", "10m", "-test.count=1")
	cmd.Dir = work
	rl := filepath.Join(work, fmt.Sprintf("race-replay-%d", time.Now().UnixNano()))
	cmd.Env = append(os.Environ(), "VERIF_REPLAY="+strings.Join(paths, string(os.PathListSeparator)), "GORACE=halt_on_error=0 log_path="+rl, "VERIF_RACE_LOG="+rl)
	if limit != "" {
		cmd.Env = append(cmd.Env, "VERIF_REPLAY_TIMEOUT="+limit)
	}
	var buf bytes.Buffer
	cmd.Stdout, cmd.Stderr = &buf, &buf
	err := cmd.Run()
	res := map[string]*replayOutcome{}
	for _, line := range strings.Split(buf.String(), "\n") {
		m := replayLine.FindStringSubmatch(line)
		if m == nil {
			continue
		}
		o := res[m[1]]
		if o == nil {
			o = &replayOutcome{}
			res[m[1]] = o
		}
		switch m[2] {
		case "KNOWN":
			if o.status == "" {
				o.status = "KNOWN"
			}
			f := strings.SplitN(m[3], " ", 2)
			o.known = append(o.known, f[0])
			if len(f) > 1 && o.msg == "" {
				o.msg = f[1]
			}
		default:
			o.status = m[2]
			o.msg = m[3]
		}
	}
	return res, buf.String(), err
}

func run(id string, cfg config, tier string, seed int64, work string, replayPath string) int {
	start := time.Now()
	bin, err := build(work, cfg.Race)
	if err != nil {
		fmt.Fprintf(os.Stderr, "INCONCLUSIVE: build failed (repository or harness does not compile):\n%v\n", err)
		return 2
	}

	if cfg.StmtProbe {
		// C20: the -cover probe is needed by the search and by every replay of a statement-count case
		os.Setenv("VERIF_TIER_NAME", tier)
		stmts, probe, err := runStmtProbe(work, replayPath == "")
		if err != nil {
			fmt.Fprintf(os.Stderr, "INCONCLUSIVE: statement-count probe: %v\n", err)
			return 2
		}
		os.Setenv("VERIF_C20_PROBE", probe)
		os.Setenv("VERIF_WORK", work)
		if stmts != "" {
			cfg.Env = append(cfg.Env, "VERIF_C20_STMTS="+stmts)
		}
	}

	// --- replay mode ---------------------------------------------------------------------------
	if replayPath != "" {
		abs, _ := filepath.Abs(replayPath)
		res, out, _ := replayMany(bin, work, []string{abs}, false)
		o := res[abs]
		if o == nil {
			fmt.Fprintf(os.Stderr, "INCONCLUSIVE: replay produced no result:\n%s\n", tail(out, 40))
			return 2
		}
		switch o.status {
		case "FAIL":
			fmt.Printf("replay fails: %s\n", o.msg)
			fmt.Printf("VIOLATION property=%s replay=%s\n", id, abs)
			return 1
		case "KNOWN":
			fmt.Printf("KNOWN-FINDING: property=%s id=%s %s\n", id, strings.Join(o.known, ","), o.msg)
			return 0
		case "PASS":
			fmt.Printf("replay passes\n")
			return 0
		}
		fmt.Fprintf(os.Stderr, "INCONCLUSIVE: %s\n", o.msg)
		return 2
	}

	// --- model self-check + known-finding witnesses ------------------------------------------------
	var mine []core.Finding
	data, _ := os.ReadFile(filepath.Join(verifDir, "known_findings.txt"))
	for _, f := range core.ParseFindings(string(data)) {
		if f.Property == id {
			mine = append(mine, f)
		}
	}
	var paths []string
	for _, f := range mine {
		if f.Witness != "" {
			paths = append(paths, filepath.Join(verifDir, f.Witness))
		}
	}
	res, out, perr := replayMany(bin, work, paths, true)
	if !strings.Contains(out, "MODEL-SELFCHECK decisive=") || strings.Contains(out, "MODEL-SELFCHECK-BAD") {
		fmt.Fprintf(os.Stderr, "INCONCLUSIVE: the reference model failed its self-check against the pinned WPT vectors (the oracle is broken, not the code):\n%s\n", tail(out, 30))
		return 2
	}
	_ = perr
	violations := 0
	var violationLines []string
	var knownLines []string
	for _, f := range mine {
		if f.Witness == "" {
			if f.Status == "open" {
				knownLines = append(knownLines, fmt.Sprintf("KNOWN-FINDING: property=%s id=%s %s", id, f.ID, f.Text))
			}
			continue
		}
		p := filepath.Join(verifDir, f.Witness)
		o := res[p]
		if o == nil {
			fmt.Fprintf(os.Stderr, "INCONCLUSIVE: witness %s produced no result:\n%s\n", p, tail(out, 30))
			return 2
		}
		switch f.Status {
		case "fixed":
			if o.status != "PASS" {
				violations++
				violationLines = append(violationLines, fmt.Sprintf("regression of fixed finding (%s %s): %s", f.Commit, f.Text, o.msg),
					fmt.Sprintf("VIOLATION property=%s replay=%s", id, p))
			}
		case "open":
			switch o.status {
			case "KNOWN":
				knownLines = append(knownLines, fmt.Sprintf("KNOWN-FINDING: property=%s id=%s %s", id, f.ID, f.Text))
			case "PASS":
				fmt.Printf("KNOWN-FINDING-RESOLVED: property=%s id=%s the witness no longer fails (%s)\n", id, f.ID, f.Witness)
			case "FAIL":
				violations++
				violationLines = append(violationLines, fmt.Sprintf("witness of %s fails in a way its classifier does not cover: %s", f.ID, o.msg),
					fmt.Sprintf("VIOLATION property=%s replay=%s", id, p))
			default:
				fmt.Fprintf(os.Stderr, "INCONCLUSIVE: witness %s: %s\n", p, o.msg)
				return 2
			}
		}
	}

	cfg.Env = append(cfg.Env, "VERIF_TIER_NAME="+tier)

	// --- rapid shards --------------------------------------------------------------------------------
	shards, checks := cfg.QuickShards, cfg.QuickChecks
	timeout := 15 * time.Minute
	if tier == "thorough" {
		shards, checks = cfg.ThoroughShards, cfg.ThoroughChecks
		timeout = 90 * time.Minute
	}
	results := make([]shardResult, shards)
	var wg sync.WaitGroup
	sem := make(chan struct{}, runtime.NumCPU()) // no more shard processes at a time than cores (C14 has 24 / 64 shards)
	for i := 0; i < shards; i++ {
		wg.Add(1)
		go func(i int) {
			defer wg.Done()
			sem <- struct{}{}
			defer func() { <-sem }()
			results[i] = runShard(bin, cfg, id, checks, mix(seed, id, i), i, shards, work, timeout)
		}(i)
	}
	wg.Wait()

	merged := core.Stats{Classes: map[string]int64{}, Known: map[string]int64{}, KnownMsg: map[string]string{}, Extra: map[string]interface{}{}, Rules: map[string]string{}, Exhaustive: map[string]bool{}}
	var allHashes []uint64
	inconclusive := ""
	var replayFiles []string
	hangFiles := map[string]bool{}
	for i, r := range results {
		if r.stats == nil {
			inconclusive = fmt.Sprintf("shard %d wrote no statistics (exit %d, %v):\n%s", i, r.exit, r.err, tail(r.out, 40))
			continue
		}
		st := r.stats
		merged.Evaluations += st.Evaluations
		merged.NonTrivial += st.NonTrivial
		merged.Vacuous += st.Vacuous
		merged.Enumerated += st.Enumerated
		for k, v := range st.Classes {
			merged.Classes[k] += v
		}
		for k, v := range st.Known {
			merged.Known[k] += v
		}
		for k, v := range st.KnownMsg {
			if _, ok := merged.KnownMsg[k]; !ok {
				merged.KnownMsg[k] = v
			}
		}
		for k, v := range st.Rules {
			merged.Rules[k] = v
		}
		for k, v := range st.Exhaustive {
			merged.Exhaustive[k] = v
		}
		for k, v := range st.Extra {
			merged.Extra[k] = v
		}
		n := 3
		if len(st.Samples) < n {
			n = len(st.Samples)
		}
		if i == 0 && len(st.Samples) > 0 {
			n = len(st.Samples)
			if n > 8 {
				n = 8
			}
		}
		merged.Samples = append(merged.Samples, st.Samples[:n]...)
		allHashes = append(allHashes, r.hashes...)
		results[i].hashes = nil
		if st.Hang != nil && st.Violation == nil {
			st.Violation = st.Hang
			hangFiles[fmt.Sprintf("%s-%s-seed%d-shard%d.json", id, tier, seed, i)] = true
		}
		if st.Violation != nil {
			rf := core.ReplayFile{Property: st.Violation.Check, Message: st.Violation.Message, Case: st.Violation.Case, First: st.Violation.First, History: st.Violation.History}
			data, _ := json.MarshalIndent(&rf, "", " ")
			_ = os.MkdirAll(filepath.Join(outDir, "replays"), 0o755)
			p := filepath.Join(outDir, "replays", fmt.Sprintf("%s-%s-seed%d-shard%d.json", id, tier, seed, i))
			if err := os.WriteFile(p, data, 0o644); err != nil {
				inconclusive = fmt.Sprintf("cannot write replay file: %v", err)
				continue
			}
			replayFiles = append(replayFiles, p)
		} else if r.err != nil || !st.Completed {
			inconclusive = fmt.Sprintf("shard %d failed without a recorded violation (exit %d, %v):\n%s", i, r.exit, r.err, tail(r.out, 40))
		} else if m := regexp.MustCompile(`OK, passed (\d+) tests`).FindAllStringSubmatch(r.out, -1); len(m) > 0 {
			for _, mm := range m {
				if n, _ := strconv.Atoi(mm[1]); n < checks && !strings.Contains(r.out, "VERIF-SCALED") {
					inconclusive = fmt.Sprintf("shard %d stopped at the deadline after %d of %d cases", i, n, checks)
				}
			}
		}
	}

	// distinct non-trivial cases across shards: sort the hashes and count the unique ones
	sort.Slice(allHashes, func(i, j int) bool { return allHashes[i] < allHashes[j] })
	distinctCount := 0
	for i, h := range allHashes {
		if i == 0 || h != allHashes[i-1] {
			distinctCount++
		}
	}
	allHashes = nil

	// Confirm violations in fresh processes (one process per replay file, in parallel, up to three
	// tries each; a failure that never reproduces is inconclusive, not a verdict). When many shards
	// report, only the three smallest replay files are confirmed and reported: they almost always
	// share one root cause, and a hang confirmation costs its full time limit.
	if len(replayFiles) > 0 {
		sort.Slice(replayFiles, func(i, j int) bool {
			fi, _ := os.Stat(replayFiles[i])
			fj, _ := os.Stat(replayFiles[j])
			if fi != nil && fj != nil && fi.Size() != fj.Size() {
				return fi.Size() < fj.Size()
			}
			return replayFiles[i] < replayFiles[j]
		})
		if len(replayFiles) > 3 {
			fmt.Printf("%d shards reported a violation; confirming the 3 smallest replay files\n", len(replayFiles))
			replayFiles = replayFiles[:3]
		}
		confirmed := make([]string, len(replayFiles))
		var cwg sync.WaitGroup
		for i, p := range replayFiles {
			cwg.Add(1)
			go func(i int, p string) {
				defer cwg.Done()
				limit := ""
				if hangFiles[filepath.Base(p)] {
					limit = "60s"
				}
				for try := 0; try < 3 && confirmed[i] == ""; try++ {
					rr, _, _ := replayOne(bin, work, p, limit)
					if o := rr[p]; o != nil && o.status == "FAIL" {
						confirmed[i] = o.msg
					}
				}
			}(i, p)
		}
		cwg.Wait()
		for i, p := range replayFiles {
			if confirmed[i] != "" && !strings.Contains(confirmed[i], "the result depends on earlier calls") {
				// the case alone reproduces: the replay file does not need what ran before it
				if data, err := os.ReadFile(p); err == nil {
					var rf core.ReplayFile
					if json.Unmarshal(data, &rf) == nil && (len(rf.History) > 0 || len(rf.First) > 0) {
						rf.History, rf.First = nil, nil
						if out, err := json.MarshalIndent(rf, "", " "); err == nil {
							_ = os.WriteFile(p, out, 0o644)
						}
					}
				}
			}
			if confirmed[i] != "" {
				violations++
				violationLines = append(violationLines, "violation: "+oneLine(confirmed[i]), fmt.Sprintf("VIOLATION property=%s replay=%s", id, p))
			} else {
				inconclusive = fmt.Sprintf("a shard reported a violation that does not reproduce from its replay file %s", p)
			}
		}
	}

	// --- native fuzzing (thorough only) ----------------------------------------------------------------
	fuzzInfo := map[string]interface{}{}
	if tier == "thorough" && violations == 0 {
		for _, target := range cfg.Fuzz {
			info, vpath, ferr := runFuzz(id, target, cfg.FuzzSeconds, work)
			fuzzInfo[target] = info
			if ferr != nil {
				inconclusive = fmt.Sprintf("fuzz target %s: %v", target, ferr)
			}
			if vpath != "" {
				rr, _, _ := replayMany(bin, work, []string{vpath}, false)
				if o := rr[vpath]; o != nil && o.status == "FAIL" {
					violations++
					violationLines = append(violationLines, "violation (native fuzzing): "+oneLine(o.msg), fmt.Sprintf("VIOLATION property=%s replay=%s", id, vpath))
				} else {
					inconclusive = fmt.Sprintf("fuzz crasher %s does not reproduce", vpath)
				}
			}
		}
	}

	// --- evidence ----------------------------------------------------------------------------------------
	var ruleParts []string
	for _, k := range core.SortedKeys(merged.Rules) {
		ruleParts = append(ruleParts, k+": "+merged.Rules[k])
	}
	cov := map[string]interface{}{
		"evaluations":                merged.Evaluations,
		"distinct_nontrivial":        int64(distinctCount) + merged.Enumerated,
		"nontrivial_with_duplicates": merged.NonTrivial,
		"vacuous":                    merged.Vacuous,
		"rule":                       strings.Join(ruleParts, " || "),
		"samples":                    merged.Samples,
		"classes":                    merged.Classes,
		"excluded_by_known_finding":  merged.Known,
		"shards":                     shards,
		"checks_per_shard":           checks,
	}
	if len(merged.Exhaustive) > 0 {
		cov["exhaustive_subchecks"] = core.SortedKeys(merged.Exhaustive)
	}
	if len(merged.Extra) > 0 {
		cov["extra"] = merged.Extra
	}
	if len(fuzzInfo) > 0 {
		cov["native_fuzz"] = fuzzInfo
	}
	if len(merged.KnownMsg) > 0 {
		cov["known_finding_examples"] = merged.KnownMsg
	}
	ev := map[string]interface{}{
		"property_id": id,
		"tier":        tier,
		"seed":        seed,
		"level":       "exploration",
		"coverage":    cov,
		"assumptions": cfg.Assumptions,
		"wall_s":      time.Since(start).Seconds(),
		"violations":  violations,
	}
	evData, _ := json.MarshalIndent(ev, "", " ")
	_ = os.MkdirAll(filepath.Join(outDir, "evidence"), 0o755)
	if err := os.WriteFile(filepath.Join(outDir, "evidence", id+".json"), append(evData, '\n'), 0o644); err != nil {
		fmt.Fprintf(os.Stderr, "INCONCLUSIVE: cannot write evidence: %v\n", err)
		return 2
	}

	for _, l := range knownLines {
		fmt.Println(l)
	}
	for _, k := range core.SortedKeys(merged.Known) {
		fmt.Printf("  cases attributed to %s during the search: %d (e.g. %s)\n", k, merged.Known[k], oneLine(merged.KnownMsg[k]))
	}
	fmt.Printf("%s %s seed=%d: %d evaluations, %d distinct non-trivial, %d violations, %.1fs\n", id, tier, seed, merged.Evaluations, int64(distinctCount)+merged.Enumerated, violations, time.Since(start).Seconds())
	if violations > 0 {
		for _, l := range violationLines {
			fmt.Println(l)
		}
		return 1
	}
	if inconclusive != "" {
		fmt.Fprintf(os.Stderr, "INCONCLUSIVE: %s\n", inconclusive)
		return 2
	}
	return 0
}

// runStmtProbe builds cmd/c20probe with coverage instrumentation of the library and runs it in 16
// worker processes; returns the path of the merged JSON (family name -> statement counts per size).
func runStmtProbe(work string, measure bool) (string, string, error) {
	harness := filepath.Join(verifDir, "harness")
	bin := filepath.Join(work, "c20probe")
	args := []string{"build", "-cover", "-covermode=atomic", "-coverpkg=github.com/nlnwa/whatwg-url/...,verif/harness/cmd/c20probe", "-o", bin}
	if repoDir != "/repo" {
		args = append(args, "-modfile="+filepath.Join(work, "go.mod"))
	}
	args = append(args, "./cmd/c20probe")
	cmd := exec.Command("go", args...)
	cmd.Dir = harness
	cmd.Env = goEnv()
	if out, err := cmd.CombinedOutput(); err != nil {
		return "", "", fmt.Errorf("building the probe: %v\n%s", err, out)
	}
	if !measure {
		return "", bin, nil
	}
	const workers = 16
	merged := map[string][]uint64{}
	var mu sync.Mutex
	var wg sync.WaitGroup
	var firstErr error
	for w := 0; w < workers; w++ {
		wg.Add(1)
		go func(w int) {
			defer wg.Done()
			scratch := filepath.Join(work, fmt.Sprintf("probe-%d", w))
			c := exec.Command(bin, scratch, strconv.Itoa(w), strconv.Itoa(workers))
			c.Env = append(goEnv(), "GOCOVERDIR="+scratch)
			_ = os.MkdirAll(scratch, 0o755)
			var stdout, stderr bytes.Buffer
			c.Stdout, c.Stderr = &stdout, &stderr
			err := c.Run()
			mu.Lock()
			defer mu.Unlock()
			if err != nil {
				if firstErr == nil {
					firstErr = fmt.Errorf("worker %d: %v: %s", w, err, tail(stderr.String(), 5))
				}
				return
			}
			var part map[string][]uint64
			if err := json.Unmarshal(stdout.Bytes(), &part); err != nil {
				if firstErr == nil {
					firstErr = fmt.Errorf("worker %d output: %v", w, err)
				}
				return
			}
			for k, v := range part {
				merged[k] = v
			}
			os.RemoveAll(scratch)
		}(w)
	}
	wg.Wait()
	if firstErr != nil {
		return "", "", firstErr
	}
	path := filepath.Join(work, "c20-stmts.json")
	data, _ := json.Marshal(merged)
	if err := os.WriteFile(path, data, 0o644); err != nil {
		return "", "", err
	}
	return path, bin, nil
}

func oneLine(s string) string {
	s = strings.SplitN(s, "\n", 2)[0]
	if len(s) > 400 {
		s = s[:400] + "…"
	}
	return s
}

func tail(s string, n int) string {
	lines := strings.Split(strings.TrimRight(s, "\n"), "\n")
	if len(lines) > n {
		lines = lines[len(lines)-n:]
	}
	return strings.Join(lines, "\n")
}

// runFuzz runs one native fuzz target for a wall-clock slice with go test -fuzz, from a scratch
// copy of its seed corpus. A crasher is converted by the target itself into a replay file under
// VERIF_FUZZ_REPLAY_DIR.
func runFuzz(id, target string, seconds int, work string) (map[string]interface{}, string, error) {
	harness := filepath.Join(verifDir, "harness")
	replayDir := filepath.Join(work, "fuzz-replays-"+target)
	args := []string{"test", "-run", "^$", "-fuzz", "^" + target + "$", "-fuzztime", fmt.Sprintf("%ds", seconds)}
	if repoDir != "/repo" {
		args = append(args, "-modfile="+filepath.Join(work, "go.mod"))
	}
	args = append(args, "./props")
	cmd := exec.Command("go", args...)
	cmd.Dir = harness
	cmd.Env = append(goEnv(), "VERIF_FUZZ_REPLAY_DIR="+replayDir, "VERIF_FUZZ_NOSAVE=1")
	var buf bytes.Buffer
	cmd.Stdout, cmd.Stderr = &buf, &buf
	start := time.Now()
	err := cmd.Run()
	out := buf.String()
	info := map[string]interface{}{"seconds": time.Since(start).Seconds()}
	if m := regexp.MustCompile(`execs: (\d+) \(\d+/sec\), new interesting: (\d+) \(total: (\d+)\)`).FindAllStringSubmatch(out, -1); len(m) > 0 {
		last := m[len(m)-1]
		info["execs"], _ = strconv.Atoi(last[1])
		info["new_interesting"], _ = strconv.Atoi(last[2])
		info["corpus_total"], _ = strconv.Atoi(last[3])
	}
	// go test writes crashers into harness/props/testdata/fuzz/<target>/; move them away so that the
	// tree stays clean and later runs do not replay them implicitly
	crashDir := filepath.Join(harness, "props", "testdata", "fuzz", target)
	if ents, derr := os.ReadDir(crashDir); derr == nil {
		for _, e := range ents {
			if !strings.HasPrefix(e.Name(), "seed-") {
				_ = os.Rename(filepath.Join(crashDir, e.Name()), filepath.Join(work, "crasher-"+target+"-"+e.Name()))
			}
		}
	}
	if ents, derr := os.ReadDir(replayDir); derr == nil && len(ents) > 0 {
		// keep the smallest replay
		best, bestSize := "", int64(1<<62)
		for _, e := range ents {
			if fi, err := e.Info(); err == nil && fi.Size() < bestSize {
				best, bestSize = e.Name(), fi.Size()
			}
		}
		dst := filepath.Join(outDir, "replays", best)
		_ = os.MkdirAll(filepath.Dir(dst), 0o755)
		data, _ := os.ReadFile(filepath.Join(replayDir, best))
		_ = os.WriteFile(dst, data, 0o644)
		return info, dst, nil
	}
	if err != nil {
		return info, "", fmt.Errorf("go test -fuzz failed without a crasher: %v\n%s", err, tail(out, 30))
	}
	return info, "", nil
}
