// Command c20probe counts the statements executed inside the library for the fixed repetition
// families of C20. It must be built with
//
//	go build -cover -covermode=atomic -coverpkg=github.com/nlnwa/whatwg-url/... ./cmd/c20probe
//
// For every (family, size) it clears the coverage counters, runs the measured operation, writes the
// counters to a directory of their own, converts them with `go tool covdata textfmt` and sums
// count × statements over all blocks of the library. Output: JSON {family name: [count per size]}.
//
// usage: c20probe <scratch dir> <worker index> <worker count> [size ...]
package main

import (
	"bufio"
	"encoding/json"
	"fmt"
	"os"
	"os/exec"
	"path/filepath"
	"runtime/coverage"
	"strconv"
	"strings"

	"verif/harness/props"
)

func main() {
	if len(os.Args) >= 4 && os.Args[1] == "family" {
		// c20probe family <family.json> <scratch dir> : statement counts of one family (replay)
		data, err := os.ReadFile(os.Args[2])
		if err != nil {
			fatal(err)
		}
		var f props.Family20
		if err := json.Unmarshal(data, &f); err != nil {
			fatal(err)
		}
		sizes := f.Sizes
		if len(sizes) == 0 {
			sizes = []int{1000, 4000, 16000}
			if os.Getenv("VERIF_TIER_NAME") == "thorough" {
				sizes = append(sizes, 64000)
			}
		}
		counts, ok := measureFamily(f, os.Args[3], "replay", sizes)
		if !ok {
			counts = nil
		}
		json.NewEncoder(os.Stdout).Encode(counts)
		return
	}
	if len(os.Args) < 4 {
		fmt.Fprintln(os.Stderr, "usage: c20probe <scratch dir> <worker index> <worker count> [size ...]")
		os.Exit(2)
	}
	scratch := os.Args[1]
	worker, _ := strconv.Atoi(os.Args[2])
	workers, _ := strconv.Atoi(os.Args[3])
	sizes := []int{1000, 4000, 16000}
	if os.Getenv("VERIF_TIER_NAME") == "thorough" {
		sizes = append(sizes, 64000)
	}
	if len(os.Args) > 4 {
		sizes = nil
		for _, a := range os.Args[4:] {
			n, err := strconv.Atoi(a)
			if err != nil {
				fmt.Fprintln(os.Stderr, "bad size", a)
				os.Exit(2)
			}
			sizes = append(sizes, n)
		}
	}
	out := map[string][]uint64{}
	for i, f := range props.Families20(os.Getenv("VERIF_TIER_NAME")) {
		if i%workers != worker {
			continue
		}
		if counts, ok := measureFamily(f, scratch, fmt.Sprintf("w%d-f%d", worker, i), sizes); ok {
			out[f.Name] = counts
		}
	}
	json.NewEncoder(os.Stdout).Encode(out)
}

func measureFamily(f props.Family20, scratch, tag string, sizes []int) ([]uint64, bool) {
	if warm, ok := props.Prepare20(f, 8); ok {
		warm()
	} else {
		return nil, false
	}
	var counts []uint64
	for _, n := range sizes {
		m, ok := props.Prepare20(f, n)
		if !ok {
			return nil, false
		}
		dir := filepath.Join(scratch, fmt.Sprintf("%s-n%d", tag, n))
		if err := os.MkdirAll(dir, 0o755); err != nil {
			fatal(err)
		}
		if err := coverage.ClearCounters(); err != nil {
			fatal(fmt.Errorf("ClearCounters: %v (binary not built with -cover -covermode=atomic?)", err))
		}
		m()
		if err := coverage.WriteCountersDir(dir); err != nil {
			fatal(err)
		}
		if err := coverage.WriteMetaDir(dir); err != nil {
			fatal(err)
		}
		c, err := sumStatements(dir)
		if err != nil {
			fatal(err)
		}
		os.RemoveAll(dir)
		counts = append(counts, c)
	}
	return counts, true
}

func fatal(err error) {
	fmt.Fprintln(os.Stderr, "c20probe:", err)
	os.Exit(2)
}

func sumStatements(dir string) (uint64, error) {
	txt := filepath.Join(dir, "cov.txt")
	cmd := exec.Command("go", "tool", "covdata", "textfmt", "-i="+dir, "-o="+txt)
	if outp, err := cmd.CombinedOutput(); err != nil {
		return 0, fmt.Errorf("covdata textfmt: %v: %s", err, outp)
	}
	f, err := os.Open(txt)
	if err != nil {
		return 0, err
	}
	defer f.Close()
	var total uint64
	sc := bufio.NewScanner(f)
	sc.Buffer(make([]byte, 1<<20), 1<<20)
	for sc.Scan() {
		line := sc.Text()
		if strings.HasPrefix(line, "mode:") {
			continue
		}
		// github.com/nlnwa/whatwg-url/url/parser.go:52.53,54.2 1 17
		if !strings.HasPrefix(line, "github.com/nlnwa/whatwg-url/") {
			continue
		}
		fs := strings.Fields(line)
		if len(fs) != 3 {
			continue
		}
		stmts, err1 := strconv.ParseUint(fs[1], 10, 64)
		count, err2 := strconv.ParseUint(fs[2], 10, 64)
		if err1 != nil || err2 != nil {
			continue
		}
		total += stmts * count
	}
	return total, sc.Err()
}
