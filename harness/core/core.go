// Package core is the shared machinery of all property checks: the per-case recorder, the rapid
// runner, statistics (evaluations, distinct non-trivial cases, class histogram, samples), replay
// files and the known-findings table.
package core

import (
	"encoding/binary"
	"encoding/hex"
	"encoding/json"
	"flag"
	"fmt"
	"hash/fnv"
	"os"
	"path/filepath"
	"runtime"
	"sort"
	"strconv"
	"strings"
	"sync"
	"sync/atomic"
	"syscall"
	"testing"
	"time"
	"unicode/utf8"

	"pgregory.net/rapid"
)

// B is a Go string that survives JSON: valid UTF-8 is written as a JSON string, anything else as
// {"hex":"…"}. Every string inside a case type is a B, so that replay files reproduce invalid UTF-8
// byte for byte.
type B string

func (b B) MarshalJSON() ([]byte, error) {
	s := string(b)
	if utf8.ValidString(s) && !strings.ContainsRune(s, utf8.RuneError) {
		return json.Marshal(s)
	}
	return json.Marshal(map[string]string{"hex": hex.EncodeToString([]byte(s))})
}

func (b *B) UnmarshalJSON(data []byte) error {
	var s string
	if err := json.Unmarshal(data, &s); err == nil {
		*b = B(s)
		return nil
	}
	var m map[string]string
	if err := json.Unmarshal(data, &m); err != nil {
		return err
	}
	raw, err := hex.DecodeString(m["hex"])
	if err != nil {
		return err
	}
	*b = B(raw)
	return nil
}

// Rec collects what one evaluation of a check function observed.
type Rec struct {
	classes    []string
	nontrivial bool
	vacuous    bool
	fail       string
	known      map[string]int
	knownMsg   map[string]string
}

// Class adds a class label to the histogram of this case.
func (r *Rec) Class(label string) { r.classes = append(r.classes, label) }

// NT marks the case non-trivial by the property's stated rule.
func (r *Rec) NT() { r.nontrivial = true }

// Vacuous marks a case whose precondition did not hold (counted, never non-trivial).
func (r *Rec) Vacuous() { r.vacuous = true }

// Failf records a violation (the first one wins).
func (r *Rec) Failf(format string, args ...interface{}) {
	if r.fail == "" {
		r.fail = fmt.Sprintf(format, args...)
	}
}

// Known attributes an observed failure to the known finding id. If that finding is not listed as
// open in known_findings.txt the classifier is inert and the failure counts as a violation.
func (r *Rec) Known(id string, format string, args ...interface{}) {
	msg := fmt.Sprintf(format, args...)
	if !KnownOpen(id) {
		r.Failf("%s (matches the classifier of %s, which is not listed as open)", msg, id)
		return
	}
	if r.known == nil {
		r.known = map[string]int{}
		r.knownMsg = map[string]string{}
	}
	r.known[id]++
	if _, ok := r.knownMsg[id]; !ok {
		r.knownMsg[id] = msg
	}
}

func (r *Rec) Failed() bool              { return r.fail != "" }
func (r *Rec) Message() string           { return r.fail }
func (r *Rec) KnownHits() map[string]int { return r.known }
func (r *Rec) KnownMessage(id string) string {
	return r.knownMsg[id]
}

// ---------------------------------------------------------------------------------------------

// Prop describes one property check: case type C, generator, pure check function.
type Prop[C any] struct {
	ID    string
	Rule  string // how cases are generated and what makes one non-trivial / distinct
	Gen   func(t *rapid.T) C
	Check func(c C, r *Rec)
}

type replayFn func(raw json.RawMessage) (*Rec, error)

var registry = map[string]replayFn{}
var rules = map[string]string{}

// Register makes a property replayable by id (sub-checks use ids like "C10.strings").
func Register[C any](p Prop[C]) Prop[C] {
	registry[p.ID] = func(raw json.RawMessage) (*Rec, error) {
		var c C
		if err := json.Unmarshal(raw, &c); err != nil {
			return nil, err
		}
		r := &Rec{}
		SafeCheck(p, c, r)
		return r, nil
	}
	rules[p.ID] = p.Rule
	return p
}

// ReplayFile is the format of every replay file and known-finding witness.
type ReplayFile struct {
	Property string          `json:"property"` // registry id, e.g. "C07" or "C10.strings"
	Message  string          `json:"message,omitempty"`
	Case     json.RawMessage `json:"case"`
	// For failures that depend on what the process did before (state kept between calls): the first
	// failing case of the shard process (Case is the one rapid shrank it to) and the cases that ran
	// before it, oldest first. Replay tries Case alone, then History followed by First.
	First   json.RawMessage `json:"first,omitempty"`
	History []Sample        `json:"history,omitempty"`
}

// Replay runs one saved case through its check function, with no library in between.
func Replay(path string) (*Rec, *ReplayFile, error) {
	data, err := os.ReadFile(path)
	if err != nil {
		return nil, nil, err
	}
	var rf ReplayFile
	if err := json.Unmarshal(data, &rf); err != nil {
		return nil, nil, fmt.Errorf("%s: %v", path, err)
	}
	fn, ok := registry[rf.Property]
	if !ok {
		return nil, &rf, fmt.Errorf("%s: unknown property %q", path, rf.Property)
	}
	rec, err := fn(rf.Case)
	if err != nil || rec.Failed() || len(rf.History) == 0 || len(rf.First) == 0 {
		return rec, &rf, err
	}
	// the case alone passes: run what the process ran before it, then the first failing case
	for _, h := range rf.History {
		if hf, ok := registry[h.Check]; ok {
			_, _ = hf(h.Case)
		}
	}
	rec2, err := fn(rf.First)
	if err == nil && rec2.Failed() {
		rec2.fail += fmt.Sprintf(" [the case passes in a fresh process and fails after the %d cases that preceded it in its shard: the result depends on earlier calls]", len(rf.History))
		return rec2, &rf, nil
	}
	return rec, &rf, err
}

// ---------------------------------------------------------------------------------------------
// statistics

type Sample struct {
	Check string          `json:"check"`
	Case  json.RawMessage `json:"case"`
}

type Violation struct {
	Check   string          `json:"check"`
	Message string          `json:"message"`
	Case    json.RawMessage `json:"case"`
	First   json.RawMessage `json:"first,omitempty"`   // the first failing case of the process (Case: rapid's last, i.e. shrunk, one)
	History []Sample        `json:"history,omitempty"` // the cases that ran before First in this process, oldest first (bounded)
}

// recent is a ring of the cases this process has run (values, marshalled only when a failure needs them).
const recentMax = 4096

type recentCase struct {
	id string
	c  interface{}
}

var recent [recentMax]recentCase
var recentN int

func historyBefore() []Sample {
	n := recentN - 1 // the newest entry is the failing case itself
	k := n
	if k > recentMax-1 {
		k = recentMax - 1
	}
	var out []Sample
	size := 0
	for i := n - k; i < n; i++ {
		e := recent[i%recentMax]
		raw, err := json.Marshal(e.c)
		if err != nil {
			continue
		}
		out = append(out, Sample{Check: e.id, Case: raw})
		size += len(raw)
	}
	for size > 4<<20 && len(out) > 0 { // keep replay files small: drop the oldest
		size -= len(out[0].Case)
		out = out[1:]
	}
	return out
}

// Stats is what one shard process reports to the driver.
type Stats struct {
	Evaluations int64                  `json:"evaluations"`
	NonTrivial  int64                  `json:"nontrivial"`
	Vacuous     int64                  `json:"vacuous"`
	Classes     map[string]int64       `json:"classes"`
	Known       map[string]int64       `json:"known"`
	KnownMsg    map[string]string      `json:"known_msg"`
	Samples     []Sample               `json:"samples"`
	Violation   *Violation             `json:"violation,omitempty"`
	Hang        *Violation             `json:"hang,omitempty"`
	Extra       map[string]interface{} `json:"extra,omitempty"`
	Rules       map[string]string      `json:"rules"`
	Exhaustive  map[string]bool        `json:"exhaustive,omitempty"`
	Enumerated  int64                  `json:"enumerated"` // distinct non-trivial cases of enumerations (not hashed)
	Completed   bool                   `json:"completed"`
}

var (
	mu       sync.Mutex
	stats    = Stats{Classes: map[string]int64{}, Known: map[string]int64{}, KnownMsg: map[string]string{}, Extra: map[string]interface{}{}, Rules: map[string]string{}, Exhaustive: map[string]bool{}}
	hashes   []uint64
	ntSeen   int64
	frozen   bool // set after the first violation: shrinking runs are not statistics
	maxSampl = 12
)

func caseHash(id string, raw []byte) uint64 {
	h := fnv.New64a()
	h.Write([]byte(id))
	h.Write([]byte{0})
	h.Write(raw)
	return h.Sum64()
}

func isPow2(n int64) bool { return n&(n-1) == 0 }

// Account merges one evaluation into the shard statistics. It returns true if the evaluation is a
// violation.
func Account(id string, c interface{}, r *Rec) bool {
	mu.Lock()
	defer mu.Unlock()
	recent[recentN%recentMax] = recentCase{id, c}
	recentN++
	if r.Failed() {
		raw, _ := json.Marshal(c)
		// every failing run overwrites the candidate; rapid's last failing run is the minimal one.
		// The first failing case and what ran before it are kept beside it.
		v := &Violation{Check: id, Message: r.fail, Case: raw}
		if stats.Violation != nil && frozen {
			v.First, v.History = stats.Violation.First, stats.Violation.History
		} else {
			v.First, v.History = raw, historyBefore()
		}
		stats.Violation = v
		frozen = true
		return true
	}
	if frozen {
		return false
	}
	stats.Rules[id] = rules[id]
	stats.Evaluations++
	if r.vacuous {
		stats.Vacuous++
	}
	for _, cl := range r.classes {
		stats.Classes[cl]++
	}
	for k, n := range r.known {
		stats.Known[k] += int64(n)
		if old, ok := stats.KnownMsg[k]; !ok || len(r.knownMsg[k]) < len(old) {
			stats.KnownMsg[k] = r.knownMsg[k]
		}
	}
	if r.nontrivial && !r.vacuous {
		stats.NonTrivial++
		raw, _ := json.Marshal(c)
		hashes = append(hashes, caseHash(id, raw))
		ntSeen++
		if len(stats.Samples) < maxSampl && (ntSeen <= 4 || isPow2(ntSeen)) {
			stats.Samples = append(stats.Samples, Sample{Check: id, Case: raw})
		}
	}
	return false
}

// AddEvaluations is used by enumerations that do not go through Account case by case.
func AddEvaluations(id string, n, distinctNonTrivial int64, exhaustive bool, sample interface{}) {
	mu.Lock()
	defer mu.Unlock()
	stats.Rules[id] = rules[id]
	stats.Evaluations += n
	stats.NonTrivial += distinctNonTrivial
	stats.Enumerated += distinctNonTrivial // distinct by construction (an enumeration), counted once
	if exhaustive {
		stats.Exhaustive[id] = true
	}
	if sample != nil {
		raw, _ := json.Marshal(sample)
		stats.Samples = append(stats.Samples, Sample{Check: id, Case: raw})
	}
}

// SetRule registers the rule text of a check that is not a Prop.
func SetRule(id, rule string) { rules[id] = rule }

// Extra stores a property-specific measurement in the shard statistics.
func Extra(key string, v interface{}) {
	mu.Lock()
	defer mu.Unlock()
	stats.Extra[key] = v
}

// ReportViolation records a violation found outside Account (enumerations).
func ReportViolation(id, msg string, c interface{}) {
	mu.Lock()
	defer mu.Unlock()
	raw, _ := json.Marshal(c)
	stats.Violation = &Violation{Check: id, Message: msg, Case: raw}
	frozen = true
}

// Flush writes the shard statistics to $VERIF_OUT (+ ".hashes").
func Flush(completed bool) {
	out := os.Getenv("VERIF_OUT")
	if out == "" {
		return
	}
	mu.Lock()
	defer mu.Unlock()
	stats.Completed = completed
	_ = os.MkdirAll(filepath.Dir(out), 0o755)
	data, _ := json.Marshal(&stats)
	_ = os.WriteFile(out, data, 0o644)
	buf := make([]byte, 8*len(hashes))
	for i, h := range hashes {
		binary.LittleEndian.PutUint64(buf[8*i:], h)
	}
	_ = os.WriteFile(out+".hashes", buf, 0o644)
}

// SafeCheck runs the check function; a panic escaping from the code under test is a violation of
// whatever property was being checked (a panicking call conforms to nothing).
func SafeCheck[C any](p Prop[C], c C, r *Rec) {
	defer func() {
		if x := recover(); x != nil {
			buf := make([]byte, 4096)
			buf = buf[:runtime.Stack(buf, false)]
			r.Failf("panic: %v\n%s", x, buf)
		}
	}()
	p.Check(c, r)
}

type watched struct {
	id    string
	c     interface{}
	start time.Time
}

var current atomic.Pointer[watched]

var watchdogOnce sync.Once

// StartWatchdog starts (once per process) a goroutine that turns a case running longer than limit into a "suspected
// hang" record: the case is written to the shard statistics (Stats.Hang) and the process exits with
// status 3. The driver confirms the hang in a fresh process before it counts as a violation.
func StartWatchdog(limit time.Duration) {
	watchdogOnce.Do(func() { startWatchdog(limit) })
}

func startWatchdog(limit time.Duration) {
	go func() {
		var seen *watched // the case the watchdog saw at its last tick, and the CPU time consumed then
		var seenCPU time.Duration
		for {
			time.Sleep(time.Second)
			w := current.Load()
			if w != seen {
				seen, seenCPU = w, cpuTime()
			}
			if w == nil {
				continue
			}
			// Wall-clock time alone says little on a loaded machine (a starved process is not a hung
			// one): a case is a suspected hang when it has been running for the limit AND this process
			// burnt at least half the limit of CPU time meanwhile (it spins), or when it has been
			// running for ten times the limit whatever it consumed (it is blocked).
			wall := time.Since(w.start)
			if wall < limit || (cpuTime()-seenCPU < limit/2 && wall < 10*limit) {
				continue
			}
			raw, _ := json.Marshal(w.c)
			mu.Lock()
			stats.Hang = &Violation{Check: w.id, Message: fmt.Sprintf("did not return within %v (suspected hang; %v of CPU time used meanwhile)", wall.Round(time.Second), (cpuTime() - seenCPU).Round(time.Second)), Case: raw}
			mu.Unlock()
			Flush(false)
			os.Exit(3)
		}
	}()
}

// cpuTime is the CPU time (user + system) this process has consumed so far.
func cpuTime() time.Duration {
	var ru syscall.Rusage
	if err := syscall.Getrusage(syscall.RUSAGE_SELF, &ru); err != nil {
		return 0
	}
	return time.Duration(ru.Utime.Nano() + ru.Stime.Nano())
}

// Watch publishes the case about to run to the watchdog (for loops that do not go through Run).
func Watch(id string, c interface{}) {
	current.Store(&watched{id: id, c: c, start: time.Now()})
}

// Unwatch clears it.
func Unwatch() { current.Store(nil) }

// RunWatched is Run with the current case published to the watchdog.
func RunWatched[C any](t *testing.T, p Prop[C]) {
	t.Helper()
	rapid.Check(t, func(rt *rapid.T) {
		c := p.Gen(rt)
		r := &Rec{}
		current.Store(&watched{id: p.ID, c: c, start: time.Now()})
		SafeCheck(p, c, r)
		current.Store(nil)
		if Account(p.ID, c, r) {
			rt.Fatalf("VIOLATION %s: %s", p.ID, r.fail)
		}
	})
}

// RunScaled is Run with the number of rapid checks scaled by num/den (sub-checks that share a
// property's budget).
func RunScaled[C any](t *testing.T, p Prop[C], num, den int) {
	t.Helper()
	f := flag.Lookup("rapid.checks")
	if f == nil {
		Run(t, p)
		return
	}
	old := f.Value.String()
	if n, err := strconv.Atoi(old); err == nil && den > 0 {
		m := n * num / den
		if m < 1 {
			m = 1
		}
		_ = flag.Set("rapid.checks", strconv.Itoa(m))
		fmt.Println("VERIF-SCALED", p.ID, m)
		defer flag.Set("rapid.checks", old)
	}
	Run(t, p)
}

// Run drives a property with rapid. All randomness is inside p.Gen.
func Run[C any](t *testing.T, p Prop[C]) {
	t.Helper()
	rapid.Check(t, func(rt *rapid.T) {
		c := p.Gen(rt)
		r := &Rec{}
		current.Store(&watched{id: p.ID, c: c, start: time.Now()})
		SafeCheck(p, c, r)
		current.Store(nil)
		if Account(p.ID, c, r) {
			rt.Fatalf("VIOLATION %s: %s", p.ID, r.fail)
		}
	})
}

// RunFuzzCase is the body of a native fuzz target: decode → same check function.
func RunFuzzCase[C any](t *testing.T, p Prop[C], c C) {
	r := &Rec{}
	SafeCheck(p, c, r)
	if r.Failed() {
		raw := SaveFuzzReplay(p.ID, c, r.fail)
		t.Fatalf("VIOLATION %s: %s\ncase: %s", p.ID, r.fail, raw)
	}
}

// SaveFuzzReplay converts a failing fuzz input into a replay file under $VERIF_FUZZ_REPLAY_DIR.
func SaveFuzzReplay(id string, c interface{}, msg string) []byte {
	raw, _ := json.Marshal(c)
	rf := ReplayFile{Property: id, Message: msg, Case: raw}
	data, _ := json.MarshalIndent(&rf, "", " ")
	if dir := os.Getenv("VERIF_FUZZ_REPLAY_DIR"); dir != "" {
		_ = os.MkdirAll(dir, 0o755)
		name := fmt.Sprintf("%s-fuzz-%016x.json", strings.ReplaceAll(id, ".", "_"), caseHash(id, raw))
		_ = os.WriteFile(filepath.Join(dir, name), data, 0o644)
	}
	return raw
}

// ---------------------------------------------------------------------------------------------
// known findings

type Finding struct {
	Status   string // "open" or "fixed"
	Property string
	ID       string
	Commit   string
	Text     string
	Witness  string
}

var (
	kfOnce   sync.Once
	findings []Finding
	openIDs  map[string]bool
)

// KnownFindingsPath returns the path of known_findings.txt.
func KnownFindingsPath() string {
	if p := os.Getenv("VERIF_KF"); p != "" {
		return p
	}
	return filepath.Join(VerifDir(), "known_findings.txt")
}

// VerifDir is the root of the verification tree (/verif).
func VerifDir() string {
	if d := os.Getenv("VERIF_DIR"); d != "" {
		return d
	}
	return "/verif"
}

// ParseFindings parses known_findings.txt:
//
//	open:  property=C03 id=KF-C03-… <what fails> witness=known/….json
//	fixed: property=C07 <commit> <what failed> witness=known/….json
func ParseFindings(data string) []Finding {
	var out []Finding
	for _, line := range strings.Split(data, "\n") {
		line = strings.TrimSpace(line)
		if line == "" || strings.HasPrefix(line, "#") {
			continue
		}
		var f Finding
		switch {
		case strings.HasPrefix(line, "open:"):
			f.Status = "open"
			line = strings.TrimSpace(strings.TrimPrefix(line, "open:"))
		case strings.HasPrefix(line, "fixed:"):
			f.Status = "fixed"
			line = strings.TrimSpace(strings.TrimPrefix(line, "fixed:"))
		default:
			continue
		}
		var text []string
		for i, w := range strings.Fields(line) {
			switch {
			case strings.HasPrefix(w, "property="):
				f.Property = strings.TrimPrefix(w, "property=")
			case strings.HasPrefix(w, "id="):
				f.ID = strings.TrimPrefix(w, "id=")
			case strings.HasPrefix(w, "witness="):
				f.Witness = strings.TrimPrefix(w, "witness=")
			case f.Status == "fixed" && f.Commit == "" && i == 1:
				f.Commit = w
			default:
				text = append(text, w)
			}
		}
		f.Text = strings.Join(text, " ")
		out = append(out, f)
	}
	return out
}

func loadFindings() {
	kfOnce.Do(func() {
		openIDs = map[string]bool{}
		data, err := os.ReadFile(KnownFindingsPath())
		if err != nil {
			return
		}
		findings = ParseFindings(string(data))
		for _, f := range findings {
			if f.Status == "open" && f.ID != "" {
				openIDs[f.ID] = true
			}
		}
	})
}

// KnownOpen tells whether a finding id is listed as open.
func KnownOpen(id string) bool {
	loadFindings()
	return openIDs[id]
}

// Findings returns all entries of known_findings.txt.
func Findings() []Finding {
	loadFindings()
	return findings
}

// SortedKeys is a small helper for deterministic iteration.
func SortedKeys[V any](m map[string]V) []string {
	keys := make([]string, 0, len(m))
	for k := range m {
		keys = append(keys, k)
	}
	sort.Strings(keys)
	return keys
}
