package props

import "strings"

// aceDecodesToSTD3Misc reports whether some xn-- label of host decodes (RFC 3492) to a string
// containing U+2260, U+226E or U+226F (the three characters UTS #46 §4.1.1 lists as disallowed under
// STD3 rules only; the implementation's ToASCII fallback lets them through on the way in) or a
// the mapping of U+0130 ("i" + U+0307) while the host has a non-LDH ASCII character somewhere (a full
// scan of all code points shows U+0130 to be the only one behind which x/net/idna lets an
// STD3-disallowed ASCII character through in Unicode form while rejecting it in ACE form).
func aceDecodesToSTD3Misc(host string) bool {
	misc, dottedI, nonLDH := false, false, false
	for _, l := range strings.Split(host, ".") {
		text := l
		if len(l) > 4 && strings.EqualFold(l[:4], "xn--") {
			if s, ok := punyDecode(l[4:]); ok {
				text = s
				if strings.ContainsAny(s, "≠≮≯") {
					misc = true
				}
				if strings.Contains(s, "i\u0307") {
					dottedI = true // what U+0130 is mapped to
				}
			}
		}
		if hasNonLDHASCII(text) {
			nonLDH = true
		}
	}
	return misc || (dottedI && nonLDH)
}

// hasNonLDHASCII: an ASCII character other than letters, digits and hyphen (disallowed under STD3
// rules). x/net/idna lets "İ;" through in Unicode form (U+0130 maps to two code points) and produces
// the label xn--i;-rub, which it rejects when it meets it in ACE form.
func hasNonLDHASCII(s string) bool {
	for _, r := range s {
		if r < 0x80 && !(r >= 'a' && r <= 'z' || r >= 'A' && r <= 'Z' || r >= '0' && r <= '9' || r == '-') {
			return true
		}
	}
	return false
}

// punyDecode is RFC 3492 §6.2.
func punyDecode(in string) (string, bool) {
	const base, tmin, tmax, skew, damp, initialBias, initialN = 36, 1, 26, 38, 700, 72, 128
	var out []rune
	b := strings.LastIndexByte(in, '-')
	if b > 0 {
		for _, c := range in[:b] {
			if c >= 0x80 {
				return "", false
			}
			out = append(out, c)
		}
		in = in[b+1:]
	} else if b == 0 {
		in = in[1:]
	}
	n, i, bias := initialN, 0, initialBias
	adapt := func(delta, numpoints int, first bool) int {
		if first {
			delta /= damp
		} else {
			delta /= 2
		}
		delta += delta / numpoints
		k := 0
		for delta > ((base-tmin)*tmax)/2 {
			delta /= base - tmin
			k += base
		}
		return k + (base-tmin+1)*delta/(delta+skew)
	}
	for pos := 0; pos < len(in); {
		oldi, w := i, 1
		for k := base; ; k += base {
			if pos >= len(in) {
				return "", false
			}
			c := in[pos]
			pos++
			var digit int
			switch {
			case c >= '0' && c <= '9':
				digit = int(c-'0') + 26
			case c >= 'a' && c <= 'z':
				digit = int(c - 'a')
			case c >= 'A' && c <= 'Z':
				digit = int(c - 'A')
			default:
				return "", false
			}
			i += digit * w
			if i < 0 || i > 1<<30 {
				return "", false
			}
			t := k - bias
			if t < tmin {
				t = tmin
			} else if t > tmax {
				t = tmax
			}
			if digit < t {
				break
			}
			w *= base - t
			if w > 1<<30 {
				return "", false
			}
		}
		bias = adapt(i-oldi, len(out)+1, oldi == 0)
		n += i / (len(out) + 1)
		i %= len(out) + 1
		if n > 0x10FFFF {
			return "", false
		}
		out = append(out, 0)
		copy(out[i+1:], out[i:])
		out[i] = rune(n)
		i++
	}
	return string(out), true
}
