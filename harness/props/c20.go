package props

import (
	"fmt"
	"math"
	"runtime"
	"strings"

	"github.com/nlnwa/whatwg-url/canonicalizer"
	"github.com/nlnwa/whatwg-url/url"
	"pgregory.net/rapid"

	"verif/harness/core"
	"verif/harness/gen"
)

// C20 — parsing and serialization cost grows at most linearly with input length.

// Family20 is a repetition family: the input of size n is Prefix + Unit×n + Suffix.
type Family20 struct {
	Name   string `json:"name,omitempty"`
	Prefix B      `json:"prefix"`
	Unit   B      `json:"unit"`
	Suffix B      `json:"suffix"`
	Mid    B      `json:"mid,omitempty"`   // two-part families: prefix + unit×n + mid + unit2×n + suffix — a second
	Unit2  B      `json:"unit2,omitempty"` // repeated action working on what the first repetition built up
	Base   B      `json:"base,omitempty"`  // optional base; "{N}" in it is replaced by "/a"×n
	Op     string `json:"op"`              // what is measured (see RunOp20)
	Sizes  []int  `json:"sizes,omitempty"` // default 1000, 4000, 16000
}

func (f Family20) input(n int) string {
	if f.Unit2 != "" {
		return string(f.Prefix) + strings.Repeat(string(f.Unit), n) + string(f.Mid) + strings.Repeat(string(f.Unit2), n) + string(f.Suffix)
	}
	return string(f.Prefix) + strings.Repeat(string(f.Unit), n) + string(f.Mid) + string(f.Suffix)
}

func (f Family20) base(n int) string {
	return strings.ReplaceAll(string(f.Base), "{N}", strings.Repeat("/a", n))
}

// Prepare20 does the unmeasured part of an operation and returns the measured part.
func Prepare20(f Family20, n int) (measured func(), ok bool) {
	in := f.input(n)
	parse := func(p url.Parser) (*url.Url, error) {
		if f.Base != "" {
			return p.ParseRef(f.base(n), in)
		}
		return p.Parse(in)
	}
	switch f.Op {
	case "parse":
		return func() { _, _ = parse(DefaultParser) }, true
	case "gsb":
		return func() { _, _ = parse(canonicalizer.GoogleSafeBrowsing) }, true
	case "semantic":
		return func() { _, _ = parse(canonicalizer.Semantic) }, true
	case "whatwgsort":
		return func() { _, _ = parse(canonicalizer.WhatWgSortQuery) }, true
	case "decoding":
		return func() { _, _ = parse(profileDecoding) }, true
	case "report":
		return func() { _, _ = parse(parserR) }, true
	}
	if strings.HasPrefix(f.Op, "set:") {
		u, err := url.Parse("http://user@host.example/p?q#f")
		if f.Op == "set:pathname-nonspecial" || f.Op == "set:host-nonspecial" {
			u, err = url.Parse("foo://user@host.example/p?q#f")
		}
		if err != nil {
			return nil, false
		}
		switch f.Op {
		case "set:search":
			return func() { u.SetSearch(in) }, true
		case "set:pathname", "set:pathname-nonspecial":
			return func() { u.SetPathname(in) }, true
		case "set:username":
			return func() { u.SetUsername(in) }, true
		case "set:password":
			return func() { u.SetPassword(in) }, true
		case "set:hash":
			return func() { u.SetHash(in) }, true
		case "set:host", "set:host-nonspecial":
			return func() { u.SetHost(in) }, true
		case "set:hostname":
			return func() { u.SetHostname(in) }, true
		case "set:port":
			return func() { u.SetPort(in) }, true
		case "set:protocol":
			return func() { u.SetProtocol(in) }, true
		}
		return nil, false
	}
	u, err := parse(DefaultParser)
	if err != nil || u == nil {
		return nil, false
	}
	switch f.Op {
	case "href":
		return func() { _ = u.Href(false) }, true
	case "pathname":
		return func() { _ = u.Pathname() }, true
	case "getters":
		return func() { touch(u) }, true
	case "searchparams":
		return func() {
			sp := u.SearchParams()
			_ = sp.Get("foo")
			_ = sp.Has("zzz")
			_ = sp.String()
		}, true
	case "sp-append":
		return func() {
			sp := u.SearchParams()
			sp.Append("k", "v")
		}, true
	case "sp-sort":
		return func() { u.SearchParams().Sort() }, true
	case "sp-iterate":
		// a callback that edits every pair
		return func() { u.SearchParams().Iterate(func(p *url.NameValuePair) { p.Value += "x" }) }, true
	case "sp-set":
		return func() { u.SearchParams().Set("k", "v") }, true
	case "sp-delete":
		return func() { u.SearchParams().Delete("k") }, true
	case "clone":
		return func() { _ = u.Clone().Href(false) }, true
	case "resolve":
		return func() { _, _ = u.Parse("x") }, true
	case "resolve-up":
		ref := strings.Repeat("../", n)
		return func() { _, _ = u.Parse(ref) }, true
	case "clear-hash":
		return func() { u.SetHash("") }, true
	case "clear-search":
		return func() { u.SetSearch("") }, true
	case "small-setters":
		// short values set on a long URL: each setter may look at the whole URL, but only once
		return func() {
			u.SetHash("x")
			u.SetSearch("y=z")
			u.SetPort("8")
			u.SetUsername("u")
			u.SetPassword("p")
			u.SetHostname("h2")
			u.SetProtocol("https")
			_ = u.Href(false)
		}, true
	case "reparse":
		h := u.Href(false)
		return func() { _, _ = url.Parse(h) }, true
	}
	return nil, false
}

// profileDecoding: repeated percent-decoding alone (keeps the fragment, strict host parsing).
var profileDecoding = canonicalizer.New(canonicalizer.WithRepeatedPercentDecoding())

type Cost20 struct {
	Bytes   uint64 `json:"bytes"`
	Mallocs uint64 `json:"mallocs"`
}

// Measure20 returns the allocation cost of the measured part (deterministic counters, not time).
func Measure20(f Family20, n int) (Cost20, bool) {
	m, ok := Prepare20(f, n)
	if !ok {
		return Cost20{}, false
	}
	var a, b runtime.MemStats
	runtime.ReadMemStats(&a)
	m()
	runtime.ReadMemStats(&b)
	return Cost20{Bytes: b.TotalAlloc - a.TotalAlloc, Mallocs: b.Mallocs - a.Mallocs}, true
}

func exponent(small, large float64, ratio float64) float64 {
	if small <= 0 || large <= 0 {
		return 0
	}
	return math.Log(large/small) / math.Log(ratio)
}

// Verdict20 measures a family at its sizes and decides: violation iff the growth exponent of some
// counter exceeds 1.5 at the largest pair of sizes and 1.4 at the pair below.
type Report20 struct {
	Family   Family20  `json:"family"`
	Sizes    []int     `json:"sizes"`
	Bytes    []uint64  `json:"bytes"`
	Mallocs  []uint64  `json:"mallocs"`
	Stmts    []uint64  `json:"stmts,omitempty"`
	ExpBytes []float64 `json:"exp_bytes"`
	ExpMall  []float64 `json:"exp_mallocs"`
	ExpStmts []float64 `json:"exp_stmts,omitempty"`
	Trivial  bool      `json:"trivial"`
}

const byteCeiling = 3 << 30

func Analyse20(f Family20) (Report20, string) {
	sizes := f.Sizes
	if len(sizes) == 0 {
		sizes = DefaultSizes20()
	}
	rep := Report20{Family: f}
	// warm-up (one-time initialisation is not cost of this input)
	if _, ok := Measure20(f, 8); !ok {
		rep.Trivial = true
		return rep, ""
	}
	empty, _ := Measure20(f, 0)
	for i, n := range sizes {
		c, ok := Measure20(f, n)
		if !ok {
			rep.Trivial = true
			return rep, ""
		}
		rep.Sizes = append(rep.Sizes, n)
		rep.Bytes = append(rep.Bytes, c.Bytes)
		rep.Mallocs = append(rep.Mallocs, c.Mallocs)
		if c.Bytes > byteCeiling && i+1 < len(sizes) {
			// a blow-up: report it with the exponents measured so far instead of running out of memory
			break
		}
	}
	if last := len(rep.Sizes) - 1; last >= 0 && float64(rep.Bytes[last]) < 3*float64(empty.Bytes)+1000 && float64(rep.Mallocs[last]) < 3*float64(empty.Mallocs)+50 {
		rep.Trivial = true // the repeated unit is not really processed (e.g. the parse fails early)
	}
	for i := 1; i < len(rep.Sizes); i++ {
		ratio := float64(rep.Sizes[i]) / float64(rep.Sizes[i-1])
		rep.ExpBytes = append(rep.ExpBytes, exponent(float64(rep.Bytes[i-1]), float64(rep.Bytes[i]), ratio))
		rep.ExpMall = append(rep.ExpMall, exponent(float64(rep.Mallocs[i-1]), float64(rep.Mallocs[i]), ratio))
	}
	return rep, verdict20(rep)
}

func superLinear(exps []float64) bool {
	n := len(exps)
	if n == 0 {
		return false
	}
	if n == 1 {
		return exps[0] > 1.5
	}
	return exps[n-1] > 1.5 && exps[n-2] > 1.4
}

func verdict20(rep Report20) string {
	if rep.Trivial {
		return ""
	}
	f := rep.Family
	desc := fmt.Sprintf("%s on %s + %s×n + %s", f.Op, quote(clip(string(f.Prefix))), quote(string(f.Unit)), quote(clip(string(f.Mid)+string(f.Suffix))))
	if f.Unit2 != "" {
		desc = fmt.Sprintf("%s on %s + %s×n + %s + %s×n + %s", f.Op, quote(clip(string(f.Prefix))), quote(string(f.Unit)), quote(clip(string(f.Mid))), quote(string(f.Unit2)), quote(clip(string(f.Suffix))))
	}
	if f.Base != "" {
		desc += " against base " + quote(clip(string(f.Base)))
	}
	if superLinear(rep.ExpBytes) {
		return fmt.Sprintf("bytes allocated by %s grow with exponent %.2f (sizes %v: %v bytes)", desc, rep.ExpBytes[len(rep.ExpBytes)-1], rep.Sizes, rep.Bytes)
	}
	if superLinear(rep.ExpMall) {
		return fmt.Sprintf("the number of allocations of %s grows with exponent %.2f (sizes %v: %v allocations)", desc, rep.ExpMall[len(rep.ExpMall)-1], rep.Sizes, rep.Mallocs)
	}
	if superLinear(rep.ExpStmts) {
		return fmt.Sprintf("statements executed in the library by %s grow with exponent %.2f (sizes %v: %v statements)", desc, rep.ExpStmts[len(rep.ExpStmts)-1], rep.Sizes, rep.Stmts)
	}
	return ""
}

func Check20(f Family20, r *core.Rec) {
	rep, msg := Analyse20(f)
	r.Class("op:" + f.Op)
	if rep.Trivial {
		r.Class("trivial")
		return
	}
	r.NT()
	if msg != "" {
		r.Failf("%s", msg)
	}
}

// FixedFamilies20 covers every place the statement names.
var FixedFamilies20 = func() []Family20 {
	var out []Family20
	add := func(name, prefix, unit, suffix, base string, ops ...string) {
		for _, op := range ops {
			out = append(out, Family20{Name: name + "/" + op, Prefix: B(prefix), Unit: B(unit), Suffix: B(suffix), Base: B(base), Op: op})
		}
	}
	all := []string{"parse", "href", "getters", "clone", "gsb", "semantic", "reparse"}
	add("scheme-specific-part", "a:", "b", "", "", all...)
	add("opaque-path-spaces", "a:", " ", "x", "", "parse", "href")
	add("long-scheme", "", "a", "://h/", "", "parse", "gsb")
	add("username", "http://", "u", "@h/", "", all...)
	add("password", "http://u:", "p", "@h/", "", all...)
	add("username-escaped", "http://", " ", "@h/", "", "parse", "href")
	add("many-at", "http://", "@", "h/", "", "parse", "gsb", "semantic")
	add("many-at-text", "http://", "a@", "h/", "", "parse", "gsb")
	add("many-colon-userinfo", "http://", ":", "@h/", "", "parse")
	add("opaque-host", "foo://", "h", "/", "", all...)
	add("opaque-host-escaped", "foo://", "é", "/", "", "parse", "href")
	add("opaque-host-percent", "foo://", "%41", "/", "", "parse", "gsb", "semantic", "reparse")
	add("opaque-host-lone-percent", "foo://", "%", "/", "", "parse", "semantic")
	add("opaque-host-nonascii-relative", "//h", "💩", "/p", "foo:/a", "parse", "semantic")
	add("domain-host", "http://", "h", ".com/", "", "parse", "href", "gsb", "semantic")
	add("dotted-labels", "http://", "a.", "com/", "", "parse", "href", "gsb", "semantic")
	add("dotted-numbers", "http://", "1.", "1/", "", "parse", "gsb")
	add("host-dot-run", "http://a", ".", "b/", "", "parse", "gsb", "semantic")
	add("host-leading-dots", "http://", ".", "a.com/", "", "gsb", "semantic")
	add("host-trailing-dots", "http://a.com", ".", "/", "", "parse", "gsb", "semantic")
	add("host-dots-percent", "http://a", "%2e", "b/", "", "gsb", "semantic")
	add("host-percent", "http://", "%61", ".com/", "", "parse", "gsb")
	add("host-invalid-bytes", "http://", "\xff", ".com/", "", "gsb", "semantic")
	add("ipv6-garbage", "http://[", "1:", "]/", "", "parse")
	add("segments", "http://h", "/a", "", "", append(all, "pathname", "resolve", "resolve-up", "whatwgsort")...)
	add("segments-nonspecial", "foo://h", "/a", "", "", "parse", "href", "pathname", "resolve")
	add("segments-nohost", "foo:", "/a", "", "", "parse", "href", "pathname")
	add("slashes", "http://h", "/", "", "", "parse", "href", "pathname", "gsb", "semantic")
	add("backslashes", "http://h", "\\", "", "", "parse", "href", "pathname", "gsb")
	add("dot-segments", "http://h", "/.", "", "", "parse", "href", "gsb")
	add("dotdot-segments", "http://h", "/..", "", "", "parse", "href", "gsb")
	add("up-down", "http://h", "/a/..", "", "", "parse", "href", "gsb")
	add("encoded-dots", "http://h", "/%2e%2E", "", "", "parse", "gsb")
	add("file-segments", "file://", "/a", "", "", "parse", "href", "pathname")
	add("path-text", "http://h/", "a", "", "", "parse", "href", "pathname", "gsb", "semantic")
	add("path-escapes", "http://h/", "%41", "", "", "parse", "href", "gsb", "semantic")
	add("path-nested-escapes", "http://h/", "%2541", "", "", "gsb", "semantic")
	add("path-lone-percent", "http://h/", "%", "", "", "parse", "gsb", "semantic")
	add("path-nonascii", "http://h/", "é", "", "", "parse", "href", "gsb")
	add("path-invalid-bytes", "http://h/", "\xff", "", "", "parse", "gsb", "semantic")
	add("query-text", "http://h/?", "a", "", "", append(all, "searchparams", "whatwgsort")...)
	add("query-params", "http://h/?x=y", "&foo=bar", "", "", append(all, "searchparams", "sp-append", "sp-sort", "whatwgsort")...)
	add("query-distinct-params", "http://h/?x=y", "&b=1&a=2", "", "", "searchparams", "sp-sort", "whatwgsort", "semantic")
	// escapes nested n levels deep (%2525...2541): one level per decoding pass
	add("nested-escape-path", "http://h/%", "25", "41", "", "parse", "gsb", "semantic", "decoding", "reparse")
	add("nested-escape-query", "http://h/?a=%", "25", "41&b=%252542", "", "gsb", "semantic", "decoding", "searchparams")
	add("nested-escape-query-name", "http://h/?%", "25", "41=1", "", "gsb", "semantic", "decoding")
	add("nested-escape-fragment", "http://h/#%", "25", "41", "", "decoding", "gsb")
	add("nested-escape-host", "http://%", "25", "61.com/", "", "gsb", "semantic")
	add("nested-escape-partial", "http://h/%", "%32%35", "41", "", "gsb", "semantic", "decoding")
	// parameters every one of which a decoding / sorting profile has to rewrite
	add("query-params-escaped", "http://h/?x=y", "&k=%41", "", "", "gsb", "semantic", "whatwgsort", "searchparams", "sp-iterate")
	add("query-params-plus", "http://h/?x=y", "&k=a+b", "", "", "gsb", "semantic", "whatwgsort", "searchparams", "sp-iterate")
	add("query-params-nested", "http://h/?x=y", "&%256b=%2541", "", "", "gsb", "semantic")
	add("query-params-same-name", "http://h/?k=0", "&k=1", "", "", "gsb", "semantic", "whatwgsort", "sp-sort", "sp-set", "sp-delete", "sp-iterate")
	add("query-ampersands", "http://h/?", "&", "", "", "parse", "searchparams", "gsb", "whatwgsort")
	add("query-equals", "http://h/?", "=", "", "", "parse", "searchparams", "gsb")
	add("query-plus", "http://h/?", "+", "", "", "parse", "searchparams", "whatwgsort")
	add("query-escapes", "http://h/?", "%41", "", "", "parse", "searchparams", "gsb", "semantic")
	add("query-nonspecial", "foo://h/?", "a'", "", "", "parse", "href")
	add("fragment-text", "http://h/#", "f", "", "", all...)
	add("fragment-escapes", "http://h/#", " ", "x", "", "parse", "href", "gsb")
	add("tabs-interleaved", "http://h/", "a\t", "", "", "parse", "gsb")
	add("newlines", "http://h/", "\n", "x", "", "parse")
	add("leading-spaces", "", " ", "http://h/", "", "parse", "gsb")
	add("trailing-spaces", "http://h/", " ", "", "", "parse")
	add("port-digits", "http://h:", "0", "80/", "", "parse")
	add("port-digits-big", "http://h:", "9", "/", "", "parse")
	// many non-fatal validation errors under the reporting parser
	add("report-bad-escapes", "http://h/", "%zz", "", "", "report")
	add("report-backslashes", "http://h", "\\a", "", "", "report")
	add("report-fragment-spaces", "http://h/#", " ", "x", "", "report")
	add("report-extra-slashes", "http:", "/", "h/", "", "report")
	add("report-query-junk", "http://h/?", "^", "", "", "report")
	add("report-opaque-junk", "foo:", "\\", "", "", "report")
	add("report-credentials", "http://", "a@", "h/", "", "report")
	add("no-scheme", "", "a", "", "", "parse", "gsb", "semantic")
	add("relative-long-ref", "", "a/", "", "http://h/b/c", "parse")
	add("relative-vs-long-base", "x", "", "", "http://h{N}", "parse")
	add("updir-vs-long-base", "", "../", "", "http://h{N}", "parse")
	add("query-ref-vs-long-base", "?q", "", "", "http://h{N}", "parse")
	for _, s := range []string{"search", "pathname", "pathname-nonspecial", "username", "password", "hash", "host", "host-nonspecial", "hostname", "port", "protocol"} {
		unit := "a"
		switch s {
		case "pathname", "pathname-nonspecial":
			unit = "/a"
		case "search":
			unit = "&a=b"
		case "port":
			unit = "1"
		}
		add("setter-"+s, "", unit, "", "", "set:"+s)
	}
	// two-part families: the second repetition acts on the state the first one built up
	add2 := func(name, prefix, unit, mid, unit2, suffix, base string, ops ...string) {
		for _, op := range ops {
			out = append(out, Family20{Name: name + "/" + op, Prefix: B(prefix), Unit: B(unit), Mid: B(mid), Unit2: B(unit2), Suffix: B(suffix), Base: B(base), Op: op})
		}
	}
	add2("down-then-up", "http://h", "/a", "", "/..", "", "", "parse", "gsb", "semantic")
	add2("down-then-push-pop", "http://h", "/a", "", "/x/..", "", "", "parse", "gsb", "semantic")
	add2("down-then-push-pop-nonspecial", "foo://h", "/a", "", "/x/..", "", "", "parse")
	add2("down-then-push-pop-vs-base", "", "a/", "", "x/../", "", "http://h/b/c", "parse")
	add2("down-then-up-file", "file://", "/a", "", "/..", "", "", "parse", "gsb")
	add2("down-then-up-nonspecial", "foo://h", "/a", "", "/..", "", "", "parse")
	add2("down-then-up-encoded", "http://h", "/a", "", "/%2e%2E", "", "", "parse", "gsb")
	add2("down-then-dots", "http://h", "/a", "", "/.", "", "", "parse", "semantic")
	add2("down-then-slashes", "http://h", "/a", "", "/", "", "", "parse", "gsb", "semantic")
	add2("up-vs-long-file-base", "", "", "", "../", "", "file://{N}", "parse")
	add2("up-vs-long-nonspecial-base", "", "", "", "../", "", "foo://h{N}", "parse")
	add2("invalid-byte-then-backslashes", "http://h/\xff", "", "", "\\", "", "", "parse", "gsb", "semantic", "report")
	add2("invalid-bytes-then-bad-escapes", "http://h/", "\xff", "", "%zz", "", "", "gsb", "semantic")
	add2("long-path-then-bad-escapes", "http://h/", "a", "", "%zz", "", "", "parse", "report", "gsb")
	add2("long-host-then-path-errors", "http://", "a", ".com/", "\\", "", "", "parse", "report")
	add2("long-userinfo-then-ats", "http://", "u", "", "@", "h/", "", "parse", "gsb")
	add2("long-password-then-ats", "http://u:", "p", "", "@", "h/", "", "parse")
	add2("long-query-then-fragment", "http://h/?", "a=b&", "#", "f", "", "", "parse", "href", "searchparams", "semantic", "whatwgsort")
	add2("long-path-then-query", "http://h", "/a", "?", "&x=y", "", "", "parse", "href", "getters", "gsb", "semantic", "whatwgsort")
	add2("opaque-path-then-spaces", "a:", "b", "", " ", "#f", "", "parse", "href", "clear-hash", "small-setters")
	add2("opaque-path-then-spaces-query", "a:", "b", "", " ", "?q", "", "parse", "clear-search")
	add2("long-path-long-query", "http://h", "/a", "?", "b=c&", "#f", "", "small-setters", "clear-search", "clear-hash", "clone", "reparse")
	add2("labels-then-dots", "http://", "a.", "b", ".", "/", "", "parse", "gsb", "semantic")
	add2("tabs-then-text", "http://h/", "\t", "", "a", "", "", "parse", "gsb")
	add2("text-then-tabs", "http://h/", "a", "", "\t", "", "", "parse", "gsb")
	add("setter-host-at", "", "@", "h", "", "set:host")
	add("setter-pathname-dots", "", "/..", "", "", "set:pathname")
	return out
}()

// GridFamilies20 is the systematic part of the thorough tier: every structural slot x every unit x
// a few operations. The statement counter covers it too (the probe measures the same list).
func GridFamilies20() []Family20 {
	var out []Family20
	for _, slot := range c20Slots {
		i := strings.Index(slot, "{}")
		prefix, suffix := slot[:i], strings.ReplaceAll(slot[i+2:], "{}", "x")
		for _, unit := range c20Units {
			for _, op := range []string{"parse", "gsb", "semantic", "href", "report"} {
				f := Family20{Name: "grid/" + slot + "/" + unit + "/" + op, Prefix: B(prefix), Unit: B(unit), Suffix: B(suffix), Op: op}
				if strings.HasPrefix(slot, "/") || strings.HasPrefix(slot, "?") || strings.HasPrefix(slot, "#") || strings.HasPrefix(slot, "//") {
					f.Base = "http://b/c/d?e#f"
				}
				out = append(out, f)
			}
		}
	}
	return out
}

// Families20 lists the enumerated families of a tier.
func Families20(tier string) []Family20 {
	if tier == "thorough" {
		return append(append([]Family20{}, FixedFamilies20...), GridFamilies20()...)
	}
	return FixedFamilies20
}

var c20Units = []string{"25", "a", "/", "/a", "/.", "/..", "@", ":", "%", "%41", "%2e", "é", "\xff", "&a=b", "&", "=", "+", ".", "a.", "1.", "\\", "?", "#", " ", "\t", "[", "]", "0", "0x", "|", "C|/", "'", "\"", "<", "{", "^", ";", "~", "xn--", "%25", "\u00ad", "ß", "💩"}
var c20Ops = []string{"parse", "parse", "gsb", "gsb", "semantic", "semantic", "href", "getters", "pathname", "searchparams", "clone", "whatwgsort", "reparse", "resolve", "report", "sp-sort", "set:search", "set:pathname", "set:username", "set:hash", "set:host", "set:hostname", "clear-hash", "clear-search", "small-setters", "sp-iterate", "sp-set", "sp-delete", "decoding"}
var c20Templates = []string{"http://u:p@h:81/p/q?a=b&c=d#f", "foo://u@h/p?q#f", "foo:opaque?q#f", "file:///C:/p?q#f", "https://a.b.c/x/../y/./z?%41=%42#%43", "http://h", "a:", "//h/p", "/p?q", "?q", "#f", ""}

// c20Slots: the repeated unit goes into one structural position ("{}") of a URL.
var c20Slots = []string{"http://{}@h/", "http://u:{}@h/", "http://{}/", "http://a{}b/", "http://h{}.com/p", "http://h:{}/", "http://h/{}", "http://h/p{}q", "http://h/?{}", "http://h/?a={}", "http://h/?{}=b", "http://h/#{}",
	"foo:{}", "foo://{}/", "foo://u:{}@h/", "foo://h/{}?q", "file:///{}", "file://{}/p", "{}", "//{}/p", "/{}", "?{}", "#{}", "{}://h/", "http://[{}]/", "http:{}h/", "ws://h/{}/../{}",
	// behind a '%' (units like "25" then nest escapes)
	"http://h/%{}41", "http://h/?a=%{}41", "http://h/#%{}41", "http://%{}61.com/"}

func Gen20(t *rapid.T) Family20 {
	tpl := gen.Pick(t, "template", c20Templates)
	pos := rapid.IntRange(0, len(tpl)).Draw(t, "pos")
	if rapid.IntRange(0, 2).Draw(t, "slotted") != 0 {
		slot := gen.Pick(t, "slot", c20Slots)
		i := strings.Index(slot, "{}")
		tpl, pos = slot[:i]+strings.ReplaceAll(slot[i+2:], "{}", "x"), i
	}
	var unit string
	if rapid.IntRange(0, 2).Draw(t, "unitKind") == 0 {
		k := rapid.IntRange(1, 2).Draw(t, "unitAtoms")
		for i := 0; i < k; i++ {
			unit += gen.Pick(t, "unit", c20Units)
		}
	} else {
		unit = gen.Pick(t, "unit", c20Units)
	}
	f := Family20{Prefix: B(tpl[:pos]), Unit: B(unit), Suffix: B(tpl[pos:]), Op: gen.Pick(t, "op", c20Ops)}
	if rapid.IntRange(0, 2).Draw(t, "twoPart") == 0 {
		// a second repetition right after the first (optionally behind a delimiter)
		f.Mid = B(gen.Pick(t, "mid", []string{"", "", "/", "?", "#", "@", ":", "."}))
		f.Unit2 = B(gen.Pick(t, "unit2", c20Units))
		if rapid.IntRange(0, 2).Draw(t, "unit2Atoms") == 0 {
			f.Unit2 += B(gen.Pick(t, "unit2b", c20Units))
		}
	}
	if rapid.IntRange(0, 4).Draw(t, "withBase") == 0 {
		f.Base = B(gen.Pick(t, "base", []string{"http://h/b/c?d#e", "file:///C:/x/y", "foo://h/p/q", "http://h{N}", "foo:/a{N}"}))
	}
	if tier := currentTier(); tier == "quick" {
		f.Sizes = []int{500, 2000, 8000}
	}
	return f
}

var P20 = core.Register(core.Prop[Family20]{
	ID: "C20",
	Rule: "repetition families prefix + unit×n + suffix and two-part families prefix + unit×n + mid + unit2×n + suffix, where the second repetition acts on what the first built up (a deep path then '..' segments, an invalid byte then many validation errors, a long opaque path then spaces) (optional base, one measured operation): a fixed list covering every place the statement names (scheme-specific part, credentials, many '@', opaque / domain / dotted hosts, segments, slashes, dot segments, query text, parameters, fragment, escapes, non-ASCII, invalid bytes, tabs, spaces, port digits, resolution against long bases, the setters with long values; operations Parse, Href, Pathname, all getters, SearchParams, Clone, reparse, resolve, the predefined profiles) plus generated families (insertion point in a URL template, 1..2 units from the token alphabet, random operation); " +
		"oracle: deterministic cost counters — bytes allocated, number of allocations (runtime.MemStats deltas) and, for the fixed families, statements executed inside the library (coverage counters of a -cover build) — measured at n, 4n, 16n; violation iff a counter's growth exponent log4(cost(4n)/cost(n)) exceeds 1.5 at the largest pair and 1.4 at the pair below (quadratic measures about 2.0, linear below 1.2); " +
		"non-trivial = the cost at the largest size exceeds 3x the cost of the empty family plus a small constant (the repeated unit is really processed); distinct by family",
	Gen:   Gen20,
	Check: Check20,
})

// DefaultSizes20: n, 4n, 16n — and 64n in the thorough tier, where a super-linear term with a small
// constant has more room to show (a measurement above the byte ceiling ends the series early).
func DefaultSizes20() []int {
	if currentTier() == "thorough" {
		return []int{1000, 4000, 16000, 64000}
	}
	return []int{1000, 4000, 16000}
}

func currentTier() string {
	if t := tierOverride; t != "" {
		return t
	}
	return "quick"
}

var tierOverride string
