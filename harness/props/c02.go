package props

import (
	"fmt"
	"regexp"
	"runtime"
	"strconv"
	"strings"

	"github.com/nlnwa/whatwg-url/canonicalizer"
	"github.com/nlnwa/whatwg-url/url"
	"golang.org/x/text/encoding/charmap"
	"pgregory.net/rapid"

	"verif/harness/core"
	"verif/harness/gen"
	"verif/harness/spec"
)

// C02 — total API: no panic, no hang, URL-or-error, under every configuration.

type Op02 struct {
	Kind   string `json:"kind"` // set resolve clone sp iterate setparams encode decode reparse profileparse
	Reg    int    `json:"reg"`
	Reg2   int    `json:"reg2,omitempty"`
	Setter int    `json:"setter,omitempty"`
	Value  B      `json:"value,omitempty"`
	SP     SPOp   `json:"sp,omitempty"`
	Set    int    `json:"set,omitempty"` // encode: index into NamedSets
}

type Case02 struct {
	Profile string  `json:"profile,omitempty"` // predefined profile used unchanged, or ""
	Opts    []Opt16 `json:"opts,omitempty"`    // otherwise: canonicalizer.New(opts) or url.NewParser(opts)
	Canon   bool    `json:"canon"`             // build with canonicalizer.New instead of url.NewParser
	Base    B       `json:"base"`
	HasBase bool    `json:"has_base"`
	Input   B       `json:"input"`
	Ops     []Op02  `json:"ops"`
	Blind   bool    `json:"blind,omitempty"` // getters only after the last step
}

var reDots = regexp.MustCompile(`\.\.+`)

// hostFuncs is the fixed family of total host callbacks.
var hostFuncs = map[string]func(u *url.Url, host string) string{
	"identity": func(u *url.Url, h string) string { return h },
	"trim-dots": func(u *url.Url, h string) string {
		return reDots.ReplaceAllString(strings.Trim(h, "."), ".")
	},
	"lower":    func(u *url.Url, h string) string { return strings.ToLower(h) },
	"constant": func(u *url.Url, h string) string { return "example.com" },
	"empty":    func(u *url.Url, h string) string { return "" },
	"ipv6":     func(u *url.Url, h string) string { return "[::1]" },
	"garbage":  func(u *url.Url, h string) string { return "a b/[\xff" },
	"getters":  func(u *url.Url, h string) string { return h + u.Protocol() },
}

// option02 builds the options C16 does not have.
func option02(o Opt16) url.ParserOption {
	switch o.Name {
	case "fail":
		return url.WithFailOnValidationError()
	case "skip-trailing-slash":
		return url.WithSkipTrailingSlashNormalization()
	case "encoding":
		switch o.Str {
		case "windows1252":
			return url.WithEncodingOverride(charmap.Windows1252)
		case "koi8r":
			return url.WithEncodingOverride(charmap.KOI8R)
		}
		return url.WithEncodingOverride(charmap.ISO8859_1)
	case "pre-host":
		return url.WithPreParseHostFunc(hostFuncs[o.Str])
	case "post-host":
		return url.WithPostParseHostFunc(hostFuncs[o.Str])
	case "special-map":
		switch o.Str {
		case "no-file":
			return url.WithSpecialSchemes(map[string]string{"ftp": "21", "http": "80", "https": "443", "ws": "80", "wss": "443"})
		case "empty":
			return url.WithSpecialSchemes(map[string]string{})
		case "nil":
			return url.WithSpecialSchemes(nil)
		case "bad-port":
			return url.WithSpecialSchemes(map[string]string{"http": "eighty", "file": "x", "foo": "-1", "": "1"})
		case "only-file":
			return url.WithSpecialSchemes(map[string]string{"file": ""})
		}
		return url.WithSpecialSchemes(withAddedScheme("gopher", "70", o.Pad))
	}
	return o.option()
}

func buildParser02(c Case02) url.Parser {
	switch c.Profile {
	case "WhatWg":
		return canonicalizer.WhatWg
	case "WhatWgSortQuery":
		return canonicalizer.WhatWgSortQuery
	case "GoogleSafeBrowsing":
		return canonicalizer.GoogleSafeBrowsing
	case "Semantic":
		return canonicalizer.Semantic
	}
	var opts []url.ParserOption
	for _, o := range c.Opts {
		opts = append(opts, option02(o))
	}
	if c.Canon {
		return newProfile(opts)
	}
	return newParser(opts)
}

// touch calls every getter; any of them panicking is a violation.
func touch(u *url.Url) {
	_ = u.Href(false)
	_ = u.Href(true)
	_ = u.Protocol()
	_ = u.Scheme()
	_ = u.Username()
	_ = u.Password()
	_ = u.Host()
	_ = u.Hostname()
	_ = u.Port()
	_ = u.DecodedPort()
	_ = u.Pathname()
	_ = u.OpaquePath()
	_ = u.Search()
	_ = u.Query()
	_ = u.Hash()
	_ = u.Fragment()
	_ = u.String()
	_ = u.ValidationErrors()
	_ = u.IsIPv4()
	_ = u.IsIPv6()
	_ = u.IsSpecialScheme()
}

func describe02(c Case02, upto int) string {
	cfg := c.Profile
	if cfg == "" {
		cfg = optNames(c.Opts)
		if c.Canon {
			cfg = "canonicalizer.New" + cfg
		} else {
			cfg = "url.NewParser" + cfg
		}
	}
	s := cfg + " parse " + quote(clip(string(c.Input)))
	if c.HasBase {
		s += " base " + quote(clip(string(c.Base)))
	}
	for i := 0; i <= upto && i < len(c.Ops); i++ {
		o := c.Ops[i]
		switch o.Kind {
		case "set":
			s += fmt.Sprintf(" ; r%d.%s=%s", o.Reg, spec.SetterNames[o.Setter], quote(clip(string(o.Value))))
		case "resolve", "profileparse", "encode", "decode":
			s += fmt.Sprintf(" ; r%d.%s(%s)", o.Reg, o.Kind, quote(clip(string(o.Value))))
		case "sp":
			s += fmt.Sprintf(" ; r%d.params.%s", o.Reg, o.SP.String())
		case "setparams":
			s += fmt.Sprintf(" ; r%d.SetSearchParams(r%d.SearchParams())", o.Reg, o.Reg2)
		case "iterate":
			s += fmt.Sprintf(" ; r%d.params.Iterate(%s)", o.Reg, iterateCallbacks[o.Set%len(iterateCallbacks)])
		case "basicparser":
			s += fmt.Sprintf(" ; BasicParser(%s, nil, r%d.Clone(), state %d)", quote(clip(string(o.Value))), o.Reg, setterStates[o.Setter%len(setterStates)])
		default:
			s += fmt.Sprintf(" ; r%d.%s", o.Reg, o.Kind)
		}
	}
	return s
}

// setterStates: the state overrides the API setters pass to BasicParser.
// Indexed like the setters (username and password have no state of their own: their values go to the host states).
var setterStates = []url.State{url.StateSchemeStart, url.StateHost, url.StateHostname, url.StateHost, url.StateHostname, url.StatePort, url.StatePathStart, url.StateQuery, url.StateFragment}

// iterateCallbacks names what the callback handed to SearchParams.Iterate does on every visit.
var iterateCallbacks = []string{"edit value", "clear name", "delete the visited name", "append", "set the visited name", "sort", "read", "SetSearch(\"\")", "SetSearch(k=v&k=w)"}

func clip(s string) string {
	if len(s) > 80 {
		return s[:40] + "…(" + fmt.Sprint(len(s)) + " bytes)…" + s[len(s)-20:]
	}
	return s
}

// step runs f under recover; a panic is a violation carrying the stack.
func step(r *core.Rec, what func() string, f func()) (ok bool) {
	defer func() {
		if x := recover(); x != nil {
			buf := make([]byte, 6000)
			buf = buf[:runtime.Stack(buf, false)]
			r.Failf("panic in %s: %v\n%s", what(), x, buf)
			ok = false
		}
	}()
	f()
	return true
}

func Check02(c Case02, r *core.Rec) {
	// Blind programs (a quarter): the getters are not called after every step but once, on every
	// register, after the last one — a getter fills what is computed on demand, and a step that
	// dereferences something only a getter creates is invisible when a getter always ran before it.
	touchUnlessBlind := func(v *url.Url) {
		if !c.Blind {
			touch(v)
		}
	}
	var p url.Parser
	if !step(r, func() string { return "building the parser for " + describe02(c, -1) }, func() { p = buildParser02(c) }) {
		return
	}
	if c.Profile != "" {
		r.Class("cfg:" + c.Profile)
	} else {
		for _, o := range c.Opts {
			r.Class("opt:" + o.Name)
		}
		if len(c.Opts) == 0 {
			r.Class("opt:none")
		}
	}
	var regs []*url.Url
	var perr error
	var u *url.Url
	if !step(r, func() string { return describe02(c, -1) }, func() {
		if c.HasBase {
			u, perr = p.ParseRef(string(c.Base), string(c.Input))
		} else {
			u, perr = p.Parse(string(c.Input))
		}
	}) {
		return
	}
	if perr == nil && u == nil {
		r.Failf("%s returned (nil, nil)", describe02(c, -1))
		return
	}
	if perr != nil {
		_ = perr.Error()
		r.Class("parse:error")
		if len(c.Opts) > 0 || c.Profile != "" {
			// the parse reached the library under a non-default configuration
			if strings.Contains(string(c.Input), "//") {
				r.NT()
			}
		}
		return
	}
	r.Class("parse:ok")
	if !step(r, func() string { return "getters after " + describe02(c, -1) }, func() { touchUnlessBlind(u) }) {
		return
	}
	regs = append(regs, u)
	mutated := false
	for i, o := range c.Ops {
		x := regs[o.Reg%len(regs)]
		what := func() string { return describe02(c, i) }
		okStep := step(r, what, func() {
			switch o.Kind {
			case "set":
				ApplySetter(x, o.Setter, string(o.Value))
				mutated = true
			case "resolve":
				v, err := x.Parse(string(o.Value))
				if err == nil && v == nil {
					r.Failf("%s returned (nil, nil)", what())
					return
				}
				if err == nil {
					touchUnlessBlind(v)
					if len(regs) < 6 {
						regs = append(regs, v)
					}
				}
			case "clone":
				v := x.Clone()
				touchUnlessBlind(v)
				if len(regs) < 6 {
					regs = append(regs, v)
				}
			case "sp":
				applyImpl(x.SearchParams(), o.SP)
				if o.SP.Op == "append" || o.SP.Op == "set" || o.SP.Op == "delete" || o.SP.Op == "sort" || o.SP.Op == "sortabs" {
					mutated = true
				}
			case "iterate":
				// the callback edits the pair, or calls back into the same list while the iteration is
				// under way (a nested sequence of SearchParams calls; each must return, whatever it
				// means for the pairs not yet visited); calls from callbacks are capped so that a
				// callback appending on every visit is not itself an unbounded program
				sp, calls := x.SearchParams(), 0
				sp.Iterate(func(p *url.NameValuePair) {
					calls++
					if calls > 64 || p == nil {
						// (a re-entrant Set leaves nil in the slots it vacated, and the iteration under
						// way hands them to the callback; the callback tolerates that — only a panic or
						// a hang inside the library counts)
						return
					}
					switch o.Set % len(iterateCallbacks) {
					case 0:
						p.Value += "x"
					case 1:
						p.Name = ""
					case 2:
						sp.Delete(p.Name)
					case 3:
						sp.Append(p.Name, "y")
					case 4:
						sp.Set(p.Name, "z")
					case 5:
						sp.Sort()
					case 6:
						_ = sp.GetAll(p.Name)
						_ = sp.String()
					case 7:
						x.SetSearch("")
					case 8:
						x.SetSearch("k=v&k=w")
					}
				})
				mutated = true
			case "setparams":
				y := regs[o.Reg2%len(regs)]
				x.SetSearchParams(y.SearchParams())
				mutated = true
			case "basicparser":
				// the parser's low-level entry point with one of the state overrides the setters use,
				// on a copy of the register (the setters' guards are bypassed, so only "returns" is asked)
				st := setterStates[o.Setter%len(setterStates)]
				if v, err := p.BasicParser(string(o.Value), nil, x.Clone(), st); err == nil && v != nil {
					touchUnlessBlind(v)
				}
			case "spclone":
				_ = x.SearchParams().Clone().String()
			case "encode":
				_ = p.PercentEncodeString(string(o.Value), NamedSets[o.Set%len(NamedSets)].Set)
			case "decode":
				if d, ok := p.(decoder); ok {
					_ = d.DecodePercentEncoded(string(o.Value))
				} else {
					_ = DefaultParser.(decoder).DecodePercentEncoded(string(o.Value))
				}
			case "reparse":
				v, err := p.Parse(x.String())
				if err == nil && v == nil {
					r.Failf("%s returned (nil, nil)", what())
					return
				}
				if err == nil {
					touchUnlessBlind(v)
				}
			case "profileparse":
				prof := []url.Parser{canonicalizer.GoogleSafeBrowsing, canonicalizer.Semantic, canonicalizer.WhatWgSortQuery, canonicalizer.WhatWg}[o.Set%4]
				v, err := prof.ParseRef(x.String(), string(o.Value))
				if err == nil && v == nil {
					r.Failf("%s returned (nil, nil)", what())
					return
				}
				if err == nil {
					touchUnlessBlind(v)
				}
			case "newurl":
				v := p.NewUrl()
				_ = v
			}
			for _, y := range regs {
				touchUnlessBlind(y)
			}
		})
		if !okStep || r.Failed() {
			return
		}
		r.Class("op:" + o.Kind)
	}
	if c.Blind {
		r.Class("blind-program")
		for ri, x := range regs {
			if !step(r, func() string {
				return fmt.Sprintf("getters of r%d (first read) after %s", ri, describe02(c, len(c.Ops)-1))
			}, func() { touch(x) }) {
				return
			}
		}
	}
	if mutated {
		r.NT()
	}
}

// ---- generators --------------------------------------------------------------------------------------

var c02OptNames = []string{"report", "fail", "accept-invalid", "single-percent", "collapse", "skip-drive", "lax-host", "skip-equals", "allow-path-nonbase", "skip-trailing-slash",
	"special-map", "encoding", "pre-host", "post-host", "path-set", "query-set", "special-query-set", "fragment-set", "special-fragment-set",
	"remove-user-info", "remove-port", "remove-fragment", "repeated-decoding", "sort-query", "default-scheme"}

func genOpt02(t *rapid.T, name string) Opt16 {
	o := Opt16{Name: name}
	switch name {
	case "special-map":
		o.Str = gen.Pick(t, "map", []string{"default+gopher", "no-file", "empty", "nil", "bad-port", "only-file"})
		o.Pad = rapid.SampledFrom([]int{0, 0, 1, 3, 10, 60, 300}).Draw(t, "tablepad")
	case "encoding":
		o.Str = gen.Pick(t, "charmap", []string{"iso8859_1", "windows1252", "koi8r"})
	case "pre-host", "post-host":
		o.Str = gen.Pick(t, "hostfunc", []string{"identity", "trim-dots", "lower", "constant", "empty", "ipv6", "garbage", "getters"})
	case "sort-query":
		o.Sort = rapid.IntRange(-2, 5).Draw(t, "sortmode") // values outside the three named constants are constructible (SortParameter + 1)
	case "default-scheme":
		o.Str = gen.Pick(t, "defscheme", []string{"http", "https", "foo", "", "9x", "file"})
	case "path-set", "query-set", "special-query-set", "fragment-set", "special-fragment-set":
		n := rapid.IntRange(1, 3).Draw(t, "ndelta")
		for i := 0; i < n; i++ {
			ch := uint(rapid.IntRange(0, 0x90).Draw(t, "deltachar"))
			if rapid.IntRange(0, 1).Draw(t, "addclear") == 0 {
				o.Add = append(o.Add, ch)
			} else {
				o.Clear = append(o.Clear, ch)
			}
		}
	}
	return o
}

var c02Hostile = []string{"http://[1:2:3:4:5:6:1.2.3.4.5]/", "http://[1:2:3:4:5:6:7:8:9:a]/", "http://[::1.2.3.4.5.6.7.8.9]/", "http://[1:2:3:4:5:6:7:1.2.3.4]/", "http://a\xff\xfe/", "http://\xff\xff\xff/x", "foo://\xff\xfe\xfd/", "file://h", "file:", "file:/x", "foo:/x", "http://h", "http://[::1", "http://[", "http://]", "http://%", "http://%ff/", "http://h/%", "%", "\x00", "a:\x00", "//", "///", "\\\\", "[", "@", ":", "?", "#",
	"http://u:p@h:1/p?q#f", "http://1.2.3.4.5.6.7.8/", "http://0x/", "http://./", "http://../", "http://h:99999999999999999999/", "http://h:/", "file:///C|/", "file://C|/", "C|/", "/C|", "..", "../..", "/..", "?", "#", "x:y", "x:/", "x://", "x:///", "blob:", "http://xn--/", "http://xn--a/", "http://a.b.c.d.e.f.g/", "http://a..b/", "http://.a/"}

func genArg02(t *rapid.T, label string) string {
	k := rapid.IntRange(0, 49).Draw(t, label+".mix")
	switch {
	case k == 0:
		// very long
		unit := gen.Pick(t, label+".unit", []string{"a", "/", "/.", "/..", "@", "%", "%41", "\xff", "é", "&a=b", ".", "a.", ":", "\\", "?", "#", "[", " ", "\t", "0", "0x", "1."})
		n := rapid.IntRange(1000, 4000).Draw(t, label+".reps")
		prefix := gen.Pick(t, label+".prefix", []string{"http://", "http://h/", "http://h/?", "http://h/#", "foo:", "foo://", "file:///", "", "http://u:", "http://["})
		return prefix + strings.Repeat(unit, n) + gen.Pick(t, label+".suffix", []string{"", "/", "@h/", "]", ".com/"})
	case k < 8:
		return gen.Pick(t, label, c02Hostile)
	case k < 14:
		return gen.Any(t, label)
	case k < 30:
		return gen.Input(t, label)
	case k < 40:
		return gen.URL(t, label)
	default:
		return gen.Soup(t, label, 8)
	}
}

func Gen02(t *rapid.T) Case02 {
	var c Case02
	switch k := rapid.IntRange(0, 9).Draw(t, "cfg"); {
	case k == 0:
		c.Profile = "GoogleSafeBrowsing"
	case k == 1:
		c.Profile = "Semantic"
	case k == 2:
		c.Profile = gen.Pick(t, "whatwg", []string{"WhatWg", "WhatWgSortQuery"})
	default:
		n := rapid.IntRange(0, 6).Draw(t, "nopts")
		seen := map[string]bool{}
		for i := 0; i < n; i++ {
			name := c02OptNames[rapid.IntRange(0, len(c02OptNames)-1).Draw(t, "opt")]
			if seen[name] {
				continue
			}
			seen[name] = true
			c.Opts = append(c.Opts, genOpt02(t, name))
		}
		c.Canon = rapid.IntRange(0, 1).Draw(t, "canon") == 1
	}
	c.Input = B(genArg02(t, "input"))
	if rapid.IntRange(0, 2).Draw(t, "hasBase") == 0 {
		c.HasBase = true
		if rapid.IntRange(0, 3).Draw(t, "baseKind") == 0 {
			c.Base = B(genArg02(t, "base"))
		} else {
			c.Base = B(gen.BaseString(t, "base"))
		}
		if rapid.IntRange(0, 1).Draw(t, "refInput") == 0 {
			c.Input = B(gen.Ref(t, "ref", gen.SchemeOf(string(c.Base))))
		}
	}
	if hasOpt(c.Opts, "special-map") && rapid.IntRange(0, 1).Draw(t, "schemeDance") == 0 {
		// an altered special-scheme table: scheme changes and resolutions around "file" and the removed
		// / added schemes, where the standard's invariants (file has a host, special has a path) no
		// longer protect the code
		c.Input, c.HasBase = B(gen.Pick(t, "sdstart", []string{"foo:/dir/doc", "file:/x", "file:///C:/x", "http://h/p", "foo://h/p", "file:x", "gopher://h:70/", "ws://h/", "foo:opaque"})), false
		for i, k := 0, rapid.IntRange(1, 6).Draw(t, "sdops"); i < k; i++ {
			reg := rapid.IntRange(0, 2).Draw(t, "sdreg")
			switch rapid.IntRange(0, 3).Draw(t, "sdkind") {
			case 0, 1:
				c.Ops = append(c.Ops, Op02{Kind: "set", Reg: reg, Setter: spec.SetterProtocol, Value: B(gen.Pick(t, "sdproto", []string{"file", "foo", "http", "ws", "gopher", "https", "bar"}))})
			case 2:
				c.Ops = append(c.Ops, Op02{Kind: "resolve", Reg: reg, Value: B(gen.Pick(t, "sdref", []string{"/x", "x", "//h/x", "C|/y", "?q", "#f", "..", "", "\\x", "/C:/z", "file:/w", "///y"}))})
			default:
				w := gen.Pick(t, "sdsetter", []string{"host", "hostname", "port", "pathname", "username"})
				idx := map[string]int{"host": spec.SetterHost, "hostname": spec.SetterHostname, "port": spec.SetterPort, "pathname": spec.SetterPathname, "username": spec.SetterUsername}[w]
				c.Ops = append(c.Ops, Op02{Kind: "set", Reg: reg, Setter: idx, Value: B(gen.SetterValue(t, "sdvalue", idx))})
			}
		}
		c.Blind = rapid.IntRange(0, 3).Draw(t, "blind") == 0
		return c
	}
	if rapid.IntRange(0, 7).Draw(t, "biglist") == 0 {
		// long parameter lists: implementations may index, cache or re-sort a list differently above
		// some length. A list of 9..65 parameters, then look-ups of names at its ends, clearing and
		// replacing the query through the setter, and look-ups again (same names: gone by now).
		n := rapid.SampledFrom([]int{9, 12, 13, 17, 33, 65}).Draw(t, "blN")
		distinct := rapid.IntRange(0, 2).Draw(t, "blDistinct") != 0
		name := func(i int) string {
			if distinct {
				return "k" + strconv.Itoa(i)
			}
			return "k" + strconv.Itoa(i%3)
		}
		var q []string
		for i := 0; i < n; i++ {
			q = append(q, name(i)+"=v"+strconv.Itoa(i))
		}
		c.Input, c.HasBase = B(gen.Pick(t, "blstart", []string{"http://h/?", "foo://h/p?", "a:b?"})+strings.Join(q, "&")), false
		pickName := func() B {
			return B(name(rapid.SampledFrom([]int{n - 1, 0, n / 2, n - 2, 8, 9}).Draw(t, "blName")))
		}
		for i, k := 0, rapid.IntRange(2, 9).Draw(t, "blops"); i < k; i++ {
			reg := rapid.IntRange(0, 1).Draw(t, "blreg")
			switch rapid.IntRange(0, 9).Draw(t, "blkind") {
			case 0, 1:
				c.Ops = append(c.Ops, Op02{Kind: "set", Reg: reg, Setter: spec.SetterSearch, Value: B(gen.Pick(t, "blsearch", []string{"", "", "?", "k0=x", strings.Join(q[:n/2], "&"), strings.Join(q, "&") + "&z=1"}))})
			case 2:
				c.Ops = append(c.Ops, Op02{Kind: gen.Pick(t, "blother", []string{"clone", "spclone", "iterate", "setparams"}), Reg: reg, Reg2: 1 - reg})
			default:
				c.Ops = append(c.Ops, Op02{Kind: "sp", Reg: reg, SP: SPOp{Op: gen.Pick(t, "blspop", []string{"get", "has", "getall", "get", "has", "delete", "set", "append", "sort", "sortabs", "string"}), Name: pickName(), Value: "w"}})
			}
		}
		c.Blind = rapid.IntRange(0, 3).Draw(t, "blind") == 0
		return c
	}
	if rapid.IntRange(0, 5).Draw(t, "juggle") == 0 {
		// parameter-list juggling: several URL values, lists handed from one to another, then every
		// kind of use of every value (a list that changed owner must keep working for all of them)
		c.Input, c.HasBase = B(gen.Pick(t, "jstart", []string{"http://h/p?a=1&b=2", "foo://h/?x", "http://h/", "a:b?c=d", "file:///p?q"})), false
		for i, k := 0, rapid.IntRange(1, 3).Draw(t, "jclones"); i < k; i++ {
			if rapid.IntRange(0, 1).Draw(t, "jhow") == 0 {
				c.Ops = append(c.Ops, Op02{Kind: "clone", Reg: rapid.IntRange(0, 3).Draw(t, "jreg")})
			} else {
				c.Ops = append(c.Ops, Op02{Kind: "resolve", Reg: rapid.IntRange(0, 3).Draw(t, "jreg"), Value: B(gen.Pick(t, "jref", []string{"?z=9", "x?y=1", "#f", ""}))})
			}
		}
		for i, k := 0, rapid.IntRange(1, 4).Draw(t, "jmoves"); i < k; i++ {
			c.Ops = append(c.Ops, Op02{Kind: "setparams", Reg: rapid.IntRange(0, 3).Draw(t, "jdst"), Reg2: rapid.IntRange(0, 3).Draw(t, "jsrc")})
		}
		for i, k := 0, rapid.IntRange(1, 5).Draw(t, "juses"); i < k; i++ {
			reg := rapid.IntRange(0, 3).Draw(t, "jureg")
			switch rapid.IntRange(0, 5).Draw(t, "juse") {
			case 0:
				c.Ops = append(c.Ops, Op02{Kind: "set", Reg: reg, Setter: spec.SetterSearch, Value: B(gen.Pick(t, "jsearch", []string{"k=v", "", "?a&b"}))})
			case 1:
				c.Ops = append(c.Ops, Op02{Kind: "spclone", Reg: reg})
			case 2:
				c.Ops = append(c.Ops, Op02{Kind: "iterate", Reg: reg, Set: rapid.IntRange(0, len(iterateCallbacks)-1).Draw(t, "jcallback")})
			case 3:
				c.Ops = append(c.Ops, Op02{Kind: "sp", Reg: reg, SP: SPOp{Op: gen.Pick(t, "jspop", []string{"append", "string", "sort", "set", "delete"}), Name: "k", Value: "v"}})
			case 4:
				c.Ops = append(c.Ops, Op02{Kind: "setparams", Reg: reg, Reg2: rapid.IntRange(0, 3).Draw(t, "jsrc2")})
			default:
				c.Ops = append(c.Ops, Op02{Kind: "clone", Reg: reg})
			}
		}
		c.Blind = rapid.IntRange(0, 3).Draw(t, "blind") == 0
		return c
	}
	n := rapid.IntRange(0, 12).Draw(t, "nops")
	kinds := []string{"set", "set", "set", "set", "resolve", "resolve", "clone", "sp", "sp", "iterate", "setparams", "spclone", "encode", "decode", "reparse", "profileparse", "newurl", "basicparser"}
	spOps := []string{"append", "delete", "set", "sort", "sortabs", "get", "getall", "has", "string"}
	for i := 0; i < n; i++ {
		o := Op02{Kind: gen.Pick(t, "kind", kinds), Reg: rapid.IntRange(0, 5).Draw(t, "reg")}
		switch o.Kind {
		case "set", "basicparser":
			o.Setter = rapid.IntRange(0, spec.NumSetters-1).Draw(t, "setter")
			if rapid.IntRange(0, 5).Draw(t, "argKind") == 0 {
				o.Value = B(genArg02(t, "value"))
			} else {
				o.Value = B(gen.SetterValue(t, "value", o.Setter))
			}
		case "resolve", "profileparse":
			if rapid.IntRange(0, 3).Draw(t, "argKind") == 0 {
				o.Value = B(genArg02(t, "value"))
			} else {
				o.Value = B(gen.Ref(t, "ref", ""))
			}
			o.Set = rapid.IntRange(0, 3).Draw(t, "whichprofile")
		case "sp":
			o.SP = SPOp{Op: gen.Pick(t, "spop", spOps)}
			o.SP.Name, o.SP.Value = B(gen.Pick(t, "name", c11Names)), B(gen.Pick(t, "value", c11Values))
			if rapid.IntRange(0, 9).Draw(t, "arbname") == 0 {
				o.SP.Name = B(gen.Any(t, "name"))
			}
		case "setparams":
			o.Reg2 = rapid.IntRange(0, 5).Draw(t, "reg2")
		case "iterate":
			o.Set = rapid.IntRange(0, len(iterateCallbacks)-1).Draw(t, "callback")
		case "encode", "decode":
			o.Value = B(genArg02(t, "value"))
			o.Set = rapid.IntRange(0, len(NamedSets)-1).Draw(t, "set")
		}
		c.Ops = append(c.Ops, o)
	}
	c.Blind = rapid.IntRange(0, 3).Draw(t, "blind") == 0
	return c
}

var P02 = core.Register(core.Prop[Case02]{
	ID: "C02",
	Rule: "a configuration (a predefined profile unchanged 30%, else 0..6 of 25 url / canonicalizer options with valued options drawn from families: special-scheme maps incl. without file / empty / nil / non-numeric ports, encoding overrides, generated percent-encode sets, total host callbacks, default schemes, sort modes; built with url.NewParser or canonicalizer.New) and a program: an initial Parse / ParseRef (arguments from hostile constants, arbitrary bytes incl. invalid UTF-8 and NUL, C01's mixture, 2% strings of 1 000..16 000 bytes) followed by 0..12 operations over a register file of URLs (nine setters, resolve, Clone, every SearchParams method incl. Iterate and Clone, SetSearchParams with another URL's handle, PercentEncodeString, DecodePercentEncoded, re-parse, profile ParseRef, NewUrl, BasicParser with the setters' state overrides on a copy of a register; Iterate callbacks that call back into the same list), all getters of all registers after every step (a quarter of the programs: only after the last step); " +
		"oracle: every step returns (recover() around it; a panic is a violation with its stack); a parse never returns (nil, nil) and every getter works on a returned URL; a watchdog turns a case that does not return into a suspected hang, confirmed in a fresh process before it counts; " +
		"non-trivial = the initial parse succeeded and at least one mutating operation ran, or the parse reached an authority under a non-default configuration; distinct by hash of the case",
	Gen:   Gen02,
	Check: Check02,
})
