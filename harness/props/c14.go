package props

import (
	"fmt"
	"os"
	"path/filepath"
	"strconv"
	"strings"
	"sync"

	"github.com/nlnwa/whatwg-url/url"
	"pgregory.net/rapid"

	"verif/harness/core"
	"verif/harness/gen"
	"verif/harness/spec"
)

// C14 — parsers, profiles and read-only URL values are safe for concurrent use.

type Op14 struct {
	Kind  string `json:"kind"` // parse parse-other parseref resolve getters spread newurl clone encode derive
	Base  int    `json:"base"`
	Value B      `json:"value,omitempty"`
	Set   int    `json:"set,omitempty"`
	Char  uint   `json:"char,omitempty"`
}

type Case14 struct {
	Parser  string  `json:"parser"` // "package", "default", a predefined profile name, or "options"
	Opts    []Opt16 `json:"opts,omitempty"`
	Canon   bool    `json:"canon,omitempty"`
	Bases   []B     `json:"bases"`
	Touched []bool  `json:"touched"` // base i had SearchParams() and getters called after parsing (lazily created state exists)
	// Setup[i]: operations applied sequentially to base i before it is shared (setters; "resolve"
	// replaces the base by base.Parse(value)): a read-only URL may have any history behind it
	Setup   [][]Op   `json:"setup,omitempty"`
	Scripts [][]Op14 `json:"scripts"` // one script per goroutine
}

func buildParser14(c Case14) url.Parser {
	switch c.Parser {
	case "package", "default":
		return url.NewParser()
	case "options":
		return buildParser02(Case02{Opts: c.Opts, Canon: c.Canon})
	}
	return buildParser02(Case02{Profile: c.Parser})
}

func result14(u *url.Url, err error) string {
	if err != nil {
		return "error: " + err.Error()
	}
	if u == nil {
		return "(nil, nil)"
	}
	o := ObsOf(u)
	return strings.Join(o[:], " | ") + fmt.Sprintf(" | %v %v %d %v %v %q %q", u.IsIPv4(), u.IsIPv6(), u.DecodedPort(), u.OpaquePath(), u.IsSpecialScheme(), u.Fragment(), u.Query())
}

func run14(c Case14, p url.Parser, bases []*url.Url, touched []bool, o Op14) string {
	var b *url.Url
	var bs string
	if len(bases) > 0 {
		b = bases[o.Base%len(bases)]
		bs = string(c.Bases[o.Base%len(bases)])
	}
	switch o.Kind {
	case "parse":
		if c.Parser == "package" {
			return result14(url.Parse(string(o.Value)))
		}
		return result14(p.Parse(string(o.Value)))
	case "parse-other":
		// the same kind of call through a second, differently configured parser in the same program
		return result14(interferingParsers[0].Parse(string(o.Value)))
	case "parseref":
		if c.Parser == "package" {
			return result14(url.ParseRef(bs, string(o.Value)))
		}
		return result14(p.ParseRef(bs, string(o.Value)))
	case "resolve":
		if b == nil {
			return "no base"
		}
		return result14(b.Parse(string(o.Value)))
	case "getters":
		if b == nil {
			return "no base"
		}
		return result14(b, nil) + fmt.Sprintf(" | %d validation errors | %s", len(b.ValidationErrors()), b.String())
	case "clone":
		if b == nil {
			return "no base"
		}
		return result14(b.Clone(), nil)
	case "newurl":
		// a fresh value from the shared parser, private to this goroutine, then written to: parsers
		// hand out values, they do not share them
		nu := p.NewUrl()
		if nu == nil {
			return "nil"
		}
		nu.SetPathname(string(o.Value))
		nu.SetSearch("k=" + string(o.Value))
		nu.SetHash(string(o.Value))
		return fmt.Sprintf("%q %q %q %q", nu.Pathname(), nu.Search(), nu.Hash(), nu.Href(false))
	case "spread":
		// reads through the parameter-list handle of a shared URL — only where the handle was created
		// before the URL was shared (creating it is a write, §7.4); with the list in place
		// SearchParams() just returns it, and Get / Has / GetAll / String only read
		bi := o.Base % max(len(bases), 1)
		if b == nil || bi >= len(touched) || !touched[bi] {
			return "no handle"
		}
		sp, n := b.SearchParams(), string(o.Value)
		return fmt.Sprintf("%q %v %q %q", sp.Get(n), sp.Has(n), sp.GetAll(n), sp.String())
	case "encode":
		return p.PercentEncodeString(string(o.Value), NamedSets[o.Set%len(NamedSets)].Set)
	case "derive":
		s := NamedSets[o.Set%len(NamedSets)].Set
		d := s.Set(o.Char).Clear(o.Char + 1)
		return fmt.Sprintf("%v %v %v", d.RuneShouldBeEncoded(rune(o.Char)), d.RuneShouldBeEncoded(rune(o.Char+1)), s.RuneShouldBeEncoded(rune(o.Char)))
	}
	return "?"
}

// parseBases parses the shared bases with p; a base that does not parse is dropped from the case.
func parseBases(c Case14, p url.Parser, touch bool) []*url.Url {
	var out []*url.Url
	for i, bs := range c.Bases {
		var u *url.Url
		var err error
		if c.Parser == "package" {
			u, err = url.Parse(string(bs))
		} else {
			u, err = p.Parse(string(bs))
		}
		if err != nil || u == nil {
			out = append(out, nil)
			continue
		}
		if i < len(c.Setup) {
			for _, op := range c.Setup[i] {
				switch op.Kind {
				case "set":
					ApplySetter(u, op.Setter, string(op.Value))
				case "resolve":
					if v, verr := u.Parse(string(op.Value)); verr == nil && v != nil {
						u = v
					}
				case "clone":
					u = u.Clone()
				}
			}
		}
		if touch && i < len(c.Touched) && c.Touched[i] {
			u.SearchParams()
			_ = result14(u, nil)
		}
		out = append(out, u)
	}
	return out
}

// tableFingerprint covers every exported package-level table plus behavioural probes of the
// unexported ones (default ports, IDNA profile).
func tableFingerprint() string {
	var sb strings.Builder
	for _, bs := range []interface{ String() string }{url.ASCIITabOrNewline, url.ASCIIAlpha, url.ASCIIDigit, url.ASCIIHexDigit, url.ASCIIAlphanumeric, url.C0control, url.C0controlOrSpace, url.ForbiddenHostCodePoint, url.ForbiddenDomainCodePoint} {
		sb.WriteString(bs.String())
		sb.WriteByte('\n')
	}
	for _, ns := range NamedSets {
		sb.WriteString(setFingerprint(ns.Set))
		sb.WriteByte('\n')
	}
	for _, probe := range []string{"http://h:80/", "https://h:443/", "ftp://h:21/", "ws://h:80/", "wss://h:443/", "file://localhost/", "gopher://h:70/", "http://EXAMPLE.com/", "http://faß.de/", "http://xn--nxasmq6b/", "http://1.2.3.4/", "http://[::1]/"} {
		u, err := url.Parse(probe)
		sb.WriteString(result14(u, err))
		sb.WriteByte('\n')
	}
	return sb.String()
}

func raceLogSize() int64 {
	prefix := os.Getenv("VERIF_RACE_LOG")
	if prefix == "" {
		return 0
	}
	matches, _ := filepath.Glob(prefix + ".*")
	var n int64
	for _, m := range matches {
		if fi, err := os.Stat(m); err == nil {
			n += fi.Size()
		}
	}
	return n
}

func raceLogTail(from int64) string {
	prefix := os.Getenv("VERIF_RACE_LOG")
	matches, _ := filepath.Glob(prefix + ".*")
	var sb strings.Builder
	for _, m := range matches {
		data, err := os.ReadFile(m)
		if err == nil {
			sb.Write(data)
		}
	}
	s := sb.String()
	if int64(len(s)) > from {
		s = s[from:]
	}
	if len(s) > 6000 {
		s = s[:6000]
	}
	return s
}

func Check14(c Case14, r *core.Rec) {
	if len(c.Scripts) < 2 {
		r.Vacuous()
		return
	}
	p := buildParser14(c)
	all := parseBases(c, p, true)
	live := liveBases(c, all)
	before := tableFingerprint()
	raceBefore := raceLogSize()

	got := make([][]string, len(c.Scripts))
	var wg sync.WaitGroup
	start := make(chan struct{})
	for g := range c.Scripts {
		wg.Add(1)
		go func(g int) {
			defer wg.Done()
			defer func() {
				if x := recover(); x != nil {
					got[g] = append(got[g], fmt.Sprintf("panic: %v", x))
				}
			}()
			<-start
			for _, o := range c.Scripts[g] {
				got[g] = append(got[g], run14(c, p, live.urls, live.touched, remap(o, live)))
			}
		}(g)
	}
	close(start)
	wg.Wait()

	r.Class("parser:" + c.Parser)
	touchCount := map[int]int{}
	resolves := map[int]bool{}
	for g, script := range c.Scripts {
		seen := map[int]bool{}
		for _, o := range script {
			r.Class("op:" + o.Kind)
			if len(live.urls) == 0 {
				continue
			}
			switch o.Kind {
			case "resolve", "getters", "clone", "parseref", "spread":
				bi := o.Base % len(live.urls)
				if !seen[bi] {
					seen[bi] = true
					touchCount[bi]++
				}
				if o.Kind == "resolve" {
					resolves[bi] = true
				}
			}
		}
		_ = g
	}
	for bi, n := range touchCount {
		if n >= 2 && resolves[bi] {
			r.NT()
			if bi < len(live.touched) && !live.touched[bi] {
				r.Class("shared-base-without-lazy-state")
			} else {
				r.Class("shared-base-with-lazy-state")
			}
		}
	}

	after := tableFingerprint()
	// (1) race detector
	if RaceEnabled {
		if grown := raceLogSize(); grown > raceBefore {
			r.Failf("the race detector reported a data race during a concurrent read-only program:\n%s", raceLogTail(raceBefore))
			return
		}
	}
	// (2) sequential equivalence. The expected results are computed AFTER the concurrent phase, every
	// operation alone on private copies (fresh parser from the same options, fresh bases with the same
	// history): computing them first would warm up any lazily initialised shared state and hide a
	// first-use race.
	expected := make([][]string, len(c.Scripts))
	for g, script := range c.Scripts {
		for _, o := range script {
			pp := buildParser14(c)
			pb := parseBases(c, pp, true)
			plive := liveBases(c, pb)
			// an unrelated call in between, so that "run alone" does not inherit a one-entry memo from
			// the operation evaluated just before
			_, _ = url.Parse("http://flush.example/?flush#flush")
			_, _ = interferingParsers[0].Parse("http://flush2.example/")
			expected[g] = append(expected[g], run14(c, pp, plive.urls, plive.touched, remap(o, plive)))
		}
	}
	for g := range c.Scripts {
		for i := range c.Scripts[g] {
			if i >= len(got[g]) {
				r.Failf("goroutine %d stopped after %d of %d operations: %v", g, len(got[g]), len(c.Scripts[g]), got[g])
				return
			}
			if got[g][i] != expected[g][i] {
				r.Failf("goroutine %d operation %d (%s %s): concurrent result %q differs from the result of the same call run alone %q", g, i, c.Scripts[g][i].Kind, quote(string(c.Scripts[g][i].Value)), got[g][i], expected[g][i])
				return
			}
		}
	}
	// (3) table immutability
	if after != before {
		r.Failf("a package-level table changed during the concurrent program")
	}
}

type liveSet struct {
	urls    []*url.Url
	touched []bool
	strs    []string
}

func liveBases(c Case14, all []*url.Url) liveSet {
	var l liveSet
	for i, u := range all {
		if u != nil {
			l.urls = append(l.urls, u)
			l.touched = append(l.touched, i < len(c.Touched) && c.Touched[i])
		}
	}
	return l
}

func remap(o Op14, l liveSet) Op14 { return o }

// ---- generator ----------------------------------------------------------------------------------------

// c14LongQuery: a shared URL whose parameter list is long enough for an implementation to read it
// through some structure built on demand (an index, sorted keys): reads of such a list are still reads.
func c14LongQuery(n int) string {
	var sb strings.Builder
	sb.WriteString("http://h/p?")
	for i := 0; i < n; i++ {
		if i > 0 {
			sb.WriteByte('&')
		}
		sb.WriteString("k" + strconv.Itoa(i%7) + "=v" + strconv.Itoa(i))
	}
	return sb.String() + "#f"
}

var c14LongPath = "http://h/" + strings.Repeat("seg/", 40) + "x?q=1#f"

var c14Bases = []string{c14LongPath, "foo://h/" + strings.Repeat("a/", 33), c14LongQuery(40), c14LongQuery(12), "file:///C:/d/e?q=1#f", "foo:opaque?q#f", "mailto:a@b  ?x", "http://h/p?a=1&b=2#f", "http://u:p@h:8/a/b/c?k=v#f", "foo://h/p?x=y", "file:///C:/d/e?q=1", "http://1.2.3.4/x?y", "http://[::1]/?z", "foo:/p/q?r", "http://example.com/a/b/../c?d=e&f", "https://faß.de/ä?ö#ü", "ws://h/", "http://h/a//b/"}
var c14Refs = []string{"x", "/y", "../z", "?q=1", "#f", "", "//other/p", "http://abs/", "./a/b", "C|/x", "\\\\h\\p", " a b ", "%zz", "é", "//[::2]/", "//9.8.7.6/", "a?b#c"}
var c14Inputs = []string{"http://ab\xff/", "http://éb\xff/", "http://\xffh.example/p", "http://日本\xfe\xff.jp/", "http://a\u200db.example/", "http://xn--a.example/", "http://a\u200db.example/", "https://\u05d01.com/", "http://example.com/", "HTTP://EXAMPLE.com:80/a/../b?x#y", "foo:bar", "file:///C|/x", "http://[1:0:0:2::3]/", "http://0x7f.1/", "http://faß.de/", "not a url", "http://h:99999/", "www.example.com/path", "http://a b/", "http://h/%zz?%zz#%zz", "http://u:p@h/", "//h", "http://h/?b=2&a=1&a=0", "https://日本語.jp/パス"}

func Gen14(t *rapid.T) Case14 {
	var c Case14
	switch k := rapid.IntRange(0, 9).Draw(t, "parser"); {
	case k <= 1:
		c.Parser = "package"
	case k == 2:
		c.Parser = "default"
	case k <= 6:
		c.Parser = gen.Pick(t, "profile", []string{"GoogleSafeBrowsing", "Semantic", "WhatWgSortQuery", "WhatWg"})
	default:
		c.Parser = "options"
		n := rapid.IntRange(1, 4).Draw(t, "nopts")
		seen := map[string]bool{}
		for i := 0; i < n; i++ {
			name := c02OptNames[rapid.IntRange(0, len(c02OptNames)-1).Draw(t, "opt")]
			if seen[name] || name == "pre-host" || name == "post-host" {
				continue
			}
			seen[name] = true
			c.Opts = append(c.Opts, genOpt02(t, name))
		}
		c.Canon = rapid.IntRange(0, 1).Draw(t, "canon") == 1
	}
	nb := rapid.IntRange(1, 3).Draw(t, "nbases")
	for i := 0; i < nb; i++ {
		if rapid.IntRange(0, 4).Draw(t, "baseKind") == 0 {
			c.Bases = append(c.Bases, B(gen.StartURL(t, "base")))
		} else {
			c.Bases = append(c.Bases, B(gen.Pick(t, "base", c14Bases)))
		}
		c.Touched = append(c.Touched, rapid.IntRange(0, 1).Draw(t, "touched") == 1)
		var setup []Op
		if rapid.IntRange(0, 2).Draw(t, "hasSetup") == 0 {
			ns := rapid.IntRange(1, 3).Draw(t, "nsetup")
			for j := 0; j < ns; j++ {
				switch rapid.IntRange(0, 3).Draw(t, "setupKind") {
				case 0:
					setup = append(setup, Op{Kind: "resolve", Value: B(gen.Pick(t, "setupRef", []string{"#f", "?q", "", "x", "/y", "#", "../z?w"}))})
				case 1:
					setup = append(setup, Op{Kind: "clone"})
				default:
					w := rapid.IntRange(0, spec.NumSetters-1).Draw(t, "setupSetter")
					setup = append(setup, Op{Kind: "set", Setter: w, Value: B(gen.Pick(t, "setupValue", gen.SetterPools[w]))})
				}
			}
		}
		c.Setup = append(c.Setup, setup)
	}
	ng := rapid.IntRange(2, 8).Draw(t, "goroutines")
	kinds := []string{"resolve", "resolve", "resolve", "getters", "getters", "clone", "parse", "parse", "parse-other", "parseref", "encode", "derive", "spread", "spread", "newurl"}
	for g := 0; g < ng; g++ {
		n := rapid.IntRange(1, 6).Draw(t, "nops")
		var script []Op14
		for i := 0; i < n; i++ {
			o := Op14{Kind: gen.Pick(t, "kind", kinds), Base: rapid.IntRange(0, 2).Draw(t, "base")}
			switch o.Kind {
			case "resolve", "parseref":
				if rapid.IntRange(0, 4).Draw(t, "refKind") == 0 {
					o.Value = B(gen.Ref(t, "ref", ""))
				} else {
					o.Value = B(gen.Pick(t, "ref", c14Refs))
				}
			case "parse", "parse-other":
				if rapid.IntRange(0, 4).Draw(t, "inKind") == 0 {
					o.Value = B(gen.Input(t, "input"))
				} else {
					o.Value = B(gen.Pick(t, "input", c14Inputs))
				}
			case "spread":
				o.Value = B(gen.Pick(t, "spname", []string{"a", "q", "k", "x", "", "d", "k0", "k6", "k3"}))
			case "newurl":
				o.Value = B(gen.Pick(t, "nuvalue", []string{"/a/b", "x", "", "/p q", "/../c", "é"}))
			case "encode":
				o.Value = B(gen.Pick(t, "input", c14Inputs))
				o.Set = rapid.IntRange(0, len(NamedSets)-1).Draw(t, "set")
			case "derive":
				o.Set = rapid.IntRange(0, len(NamedSets)-1).Draw(t, "set")
				o.Char = uint(rapid.IntRange(0x21, 0x7d).Draw(t, "char"))
			}
			script = append(script, o)
		}
		c.Scripts = append(c.Scripts, script)
	}
	return c
}

var P14 = core.Register(core.Prop[Case14]{
	ID: "C14",
	Rule: "generated concurrent programs: one shared parser (package-level functions, default parser, one of the four predefined profiles, or 1..4 generated options), 1..3 shared base URLs parsed with it, a third of them with a sequential history of 1..3 setters / resolutions / clones behind them, half never touched after that (so lazily created state does not exist yet), 2..8 goroutines released from one barrier, each with a script of 1..6 read-only operations (Parse, the same through a second differently configured parser, ParseRef with a shared base string, (*Url).Parse on a shared base, all pure getters of a shared base, Get / Has / GetAll / String through the parameter-list handle of a shared base where that handle was created before sharing, Clone of a shared base, NewUrl followed by setters on the private value, PercentEncodeString with shared named sets, Set/Clear derivations from shared named sets); " +
		"oracle (test binary built with -race): (1) the race detector's log does not grow during the program, (2) every operation's result equals the result of the same operation run alone on private copies, (3) fingerprints of every exported package-level table and behavioural probes of the unexported ones are unchanged; " +
		"non-trivial = at least 2 goroutines use the same base URL and at least one of them resolves against it; distinct by hash of the program",
	Gen:   Gen14,
	Check: Check14,
})
