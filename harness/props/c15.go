package props

import (
	"fmt"

	"github.com/nlnwa/whatwg-url/canonicalizer"
	"github.com/nlnwa/whatwg-url/errors"
	"github.com/nlnwa/whatwg-url/url"
	"pgregory.net/rapid"

	"verif/harness/core"
	"verif/harness/gen"
	"verif/harness/spec"
)

// C15 — diagnostics options never change results; errors are classified.

var (
	parserD  = url.NewParser()
	parserR  = url.NewParser(url.WithReportValidationErrors())
	parserF  = url.NewParser(url.WithFailOnValidationError())
	parserRF = url.NewParser(url.WithReportValidationErrors(), url.WithFailOnValidationError())
)

var c15Profiles = []struct {
	name string
	p    url.Parser
}{{"GoogleSafeBrowsing", canonicalizer.GoogleSafeBrowsing}, {"Semantic", canonicalizer.Semantic}, {"WhatWgSortQuery", canonicalizer.WhatWgSortQuery},
	{"New(default-scheme http)", canonicalizer.New(canonicalizer.WithDefaultScheme("http"))}, {"New(default-scheme foo, decoding)", canonicalizer.New(canonicalizer.WithDefaultScheme("foo"), canonicalizer.WithRepeatedPercentDecoding())}}

// documentedTypes: the constants exported by errors/codes.go.
var documentedTypes = map[errors.ErrorType]bool{
	errors.DomainToASCII: true, errors.DomainToUnicode: true,
	errors.DomainInvalidCodePoint: true, errors.HostInvalidCodePoint: true, errors.IPv4EmptyPart: true, errors.IPv4TooManyParts: true,
	errors.IPv4NonNumericPart: true, errors.IPv4NonDecimalPart: true, errors.IPv4OutOfRangePart: true, errors.IPv6Unclosed: true,
	errors.IPv6InvalidCompression: true, errors.IPv6TooManyPieces: true, errors.IPv6MultipleCompression: true, errors.IPv6InvalidCodePoint: true,
	errors.IPv6TooFewPieces: true, errors.IPv4InIPv6TooManyPieces: true, errors.IPv4InIPv6InvalidCodePoint: true, errors.IPv4InIPv6OutOfRangePart: true,
	errors.IPv4InIPv6TooFewParts: true,
	errors.InvalidURLUnit:        true, errors.SpecialSchemeMissingFollowingSolidus: true, errors.MissingSchemeNonRelativeURL: true, errors.InvalidReverseSolidus: true,
	errors.InvalidCredentials: true, errors.HostMissing: true, errors.PortMissing: true, errors.PortOutOfRange: true, errors.PortInvalid: true,
	errors.FileInvalidWindowsDriveLetter: true, errors.FileInvalidWindowsDriveLetterHost: true,
}

// Case15 is C01's pair plus optional further parser options under which the reporting relation is
// evaluated as well (reporting is observation only, whatever else is configured).
type Case15 struct {
	Input   B       `json:"input"`
	Base    B       `json:"base"`
	HasBase bool    `json:"has_base"`
	Opts    []Opt16 `json:"opts,omitempty"`
}

func (c Case15) pair() Case01 { return Case01{Input: c.Input, Base: c.Base, HasBase: c.HasBase} }

func parseWith(p url.Parser, c Case01) parsed {
	if c.HasBase {
		u, err := p.ParseRef(string(c.Base), string(c.Input))
		return parsed{u, err}
	}
	u, err := p.Parse(string(c.Input))
	return parsed{u, err}
}

func Check15(cc Case15, r *core.Rec) {
	c := cc.pair()
	if len(cc.Opts) > 0 {
		// (i') under any further options: adding reporting changes neither success nor any component
		base := buildOptions(cc.Opts)
		without := parseWith(url.NewParser(base...), c)
		with := parseWith(url.NewParser(append(append([]url.ParserOption{}, base...), url.WithReportValidationErrors())...), c)
		r.Class("extra-options")
		if d := sameOutcome(with, without); d != "" {
			r.Failf("%s options %s: adding validation-error reporting changes the result: %s", quote(string(c.Input)), optNames(cc.Opts), d)
			return
		}
		if without.ok() && len(with.u.ValidationErrors()) > 0 {
			r.NT()
		}
	}
	where := quote(string(c.Input))
	if c.HasBase {
		where += " base=" + quote(string(c.Base))
	}
	D, R, F, RF := parseWith(parserD, c), parseWith(parserR, c), parseWith(parserF, c), parseWith(parserRF, c)
	for i, p := range []parsed{D, R, F, RF} {
		if p.err == nil && p.u == nil {
			r.Failf("%s: parser %d returned (nil, nil)", where, i)
			return
		}
	}
	// (i) reporting never changes success nor any component
	if D.ok() != R.ok() {
		r.Failf("%s: default parser ok=%v but reporting parser ok=%v (%v / %v)", where, D.ok(), R.ok(), D.err, R.err)
		return
	}
	if D.ok() {
		if d := DiffObs(ObsOf(R.u), ObsOf(D.u)); d != "" {
			r.Failf("%s: reporting changes the result (reporting vs default): %s", where, d)
			return
		}
	}
	if F.ok() != RF.ok() {
		r.Failf("%s: fail-on-validation-error ok=%v but with reporting added ok=%v", where, F.ok(), RF.ok())
		return
	}
	// (ii) fail mode never accepts what the default rejects, returns the same URL when it accepts
	type np struct {
		name string
		p    parsed
	}
	for _, x := range []np{{"fail-on-validation-error", F}, {"report+fail", RF}} {
		name, p := x.name, x.p
		if !D.ok() && p.ok() {
			r.Failf("%s: the default parser rejects (%v) but %s accepts %s", where, D.err, name, p.u.Href(false))
			return
		}
		if p.ok() {
			if d := DiffObs(ObsOf(p.u), ObsOf(D.u)); d != "" {
				r.Failf("%s: %s returns a different URL than the default parser: %s", where, name, d)
				return
			}
		}
	}
	// (iii) without a base: fail mode accepts exactly what reporting mode records nothing for
	if !c.HasBase {
		clean := R.ok() && len(R.u.ValidationErrors()) == 0
		if F.ok() != clean {
			n := -1
			if R.ok() {
				n = len(R.u.ValidationErrors())
			}
			r.Failf("%s: fail-on-validation-error accepts=%v but reporting mode ok=%v with %d recorded entries (%v)", where, F.ok(), R.ok(), n, recorded(R))
			return
		}
		if RF.ok() && len(RF.u.ValidationErrors()) != 0 {
			r.Failf("%s: report+fail accepts but recorded %v", where, recorded(RF))
			return
		}
	}
	// (iv) classification
	for _, x := range []np{{"default", D}, {"reporting", R}, {"fail", F}, {"report+fail", RF}} {
		name, p := x.name, x.p
		if p.err == nil {
			continue
		}
		ty := errors.Type(p.err)
		if ty == "" || !documentedTypes[ty] {
			r.Failf("%s: the %s parser returned an error without a documented type: %q (%v)", where, name, ty, p.err)
			return
		}
		r.Class("type:" + shortType(ty))
		if (name == "default" || name == "reporting") && !errors.Failure(p.err) {
			r.Failf("%s: the %s parser returned an error that is not marked as a failure: %v", where, name, p.err)
			return
		}
		if (name == "fail" || name == "report+fail") && errors.Failure(p.err) && D.ok() {
			r.Failf("%s: the %s parser returned an error marked as a failure (%v) but the default parser accepts", where, name, p.err)
			return
		}
	}
	// ... also for the parse calls of the predefined and composed profiles (Parse and ParseRef, whose
	// default-scheme retry has error paths of its own)
	for _, pp := range c15Profiles {
		pr := parseWith(pp.p, c)
		if pr.err == nil {
			continue
		}
		ty := errors.Type(pr.err)
		if ty == "" || !documentedTypes[ty] {
			r.Failf("%s: %s returned an error without a documented type: %q (%v)", where, pp.name, ty, pr.err)
			return
		}
		if !errors.Failure(pr.err) {
			r.Failf("%s: %s returned an error that is not marked as a failure: %v", where, pp.name, pr.err)
			return
		}
		r.Class("profile-error")
	}
	for _, x := range []np{{"reporting", R}, {"report+fail", RF}} {
		name, p := x.name, x.p
		if !p.ok() {
			continue
		}
		for _, e := range p.u.ValidationErrors() {
			ty := errors.Type(e)
			if ty == "" || !documentedTypes[ty] {
				r.Failf("%s: the %s parser recorded an entry without a documented type: %q", where, name, ty)
				return
			}
			r.Class("recorded:" + shortType(ty))
			if errors.Failure(e) {
				r.Failf("%s: parsing succeeded but the %s parser recorded an entry marked as a failure: %v", where, name, e)
				return
			}
		}
	}
	// (v) missing scheme is reported as such, and only then
	var tr spec.Trace
	_, mok, _ := modelParse(Model, c, &tr)
	if !c.HasBase && !D.ok() {
		isMissing := errors.Type(D.err) == errors.MissingSchemeNonRelativeURL
		if isMissing != (!mok && tr.NoSchemeFailure()) {
			r.Failf("%s: error type %q, but the standard's parser fails in state %q", where, errors.Type(D.err), tr.FailedIn())
			return
		}
	}
	if (D.ok() && len(R.u.ValidationErrors()) >= 1) || (!D.ok() && tr.NumStates() >= 3) {
		r.NT()
	}
	if c.HasBase {
		r.Class("with-base")
	}
}

func recorded(p parsed) []string {
	var out []string
	if p.u == nil {
		return out
	}
	for _, e := range p.u.ValidationErrors() {
		out = append(out, fmt.Sprintf("%s(failure=%v)", shortType(errors.Type(e)), errors.Failure(e)))
	}
	return out
}

func shortType(t errors.ErrorType) string {
	s := string(t)
	if len(s) > 40 {
		s = s[:40]
	}
	return s
}

var c15Inputs = []string{" http://h/", "http://h/\t", "http:\\\\h\\p", "http:/h", "http:h", "http://u:p@h/", "http://h/\"", "http://h/%", "http://h/%zz", "http://0x7f.1/", "http://017.1/", "http://1.2.3.4./", "http://a../", "http://../", "http://a./",
	"http://h..a/", "file:///C|/x", "file://C:/x", "file:c:/x", "http://h/a b", "http://h/?a b", "http://h/#a b", "http://é/", "foo://h/%zz", "foo:%zz", "foo://h^/", "http://h:65536/", "http://h:8a/", "http://[::1/", "http://[1::2::3]/", "http://[::1.2.3]/",
	"http://1.2.3.4.5/", "http://256.256.256.256/", "http://1.2.3.256/", "http://0x100000000/", "http://a.1.2.3.4g/", "//h", "/p", "", "h", "1:", "http://@/", "http://:@h/", "http://h:/", "http://0x.0x/", "http://1..2/", "http://.1/", "http://1./", "http://.../", "http://a.../"}

var c15ExtraOpts = []string{"accept-invalid", "single-percent", "collapse", "skip-drive", "lax-host", "skip-equals", "special-schemes", "path-set", "query-set", "special-query-set", "fragment-set", "special-fragment-set"}

func Gen15(t *rapid.T) Case15 {
	var c Case15
	if rapid.IntRange(0, 2).Draw(t, "biased") == 0 {
		c.Input = B(gen.Mutate(t, "mut", gen.Pick(t, "input", c15Inputs)))
		if rapid.IntRange(0, 2).Draw(t, "hasBase") == 0 {
			c.HasBase = true
			c.Base = B(gen.BaseString(t, "base"))
		}
	} else {
		p := Gen01(t)
		c.Input, c.Base, c.HasBase = p.Input, p.Base, p.HasBase
	}
	if rapid.IntRange(0, 3).Draw(t, "extra") == 0 {
		seen := map[string]bool{}
		for i, n := 0, rapid.IntRange(1, 3).Draw(t, "nextra"); i < n; i++ {
			name := gen.Pick(t, "extraOpt", c15ExtraOpts)
			if !seen[name] {
				seen[name] = true
				c.Opts = append(c.Opts, genOpt(t, name))
			}
		}
		if rapid.IntRange(0, 1).Draw(t, "pctInput") == 0 {
			c.Input = B(gen.Pick(t, "pctIn", []string{"mailto:50%off@x", "foo:a%zz", "http://h/%", "http://h/a%2", "foo://h%/p", "http://h/?%#%", "data:%%%", "x:%4", "http://a\xff/%"}))
			c.HasBase = false
		}
	}
	return c
}

var P15 = core.Register(core.Prop[Case15]{
	ID: "C15",
	Rule: "(input, base?) pairs as in C01, a third biased to inputs that produce validation errors but parse (whitespace, backslashes, missing slashes, credentials, bad escapes, hex/octal IPv4, trailing-dot and empty-label hosts, drive-letter quirks) with mutations; four parsers: default, reporting, fail-on-validation-error, both; a quarter of the cases additionally carry 1..3 further parser options under which 'with reporting' is compared with 'without'; " +
		"oracle: reporting never changes success or any getter; fail mode never accepts what the default rejects and returns the same URL; without a base fail mode accepts exactly when reporting records nothing; every returned error has a documented non-empty type and (default, reporting) is marked as failure; a failure-marked error from fail mode implies the default fails; recorded entries on success are non-fatal with documented types; MissingSchemeNonRelativeURL exactly when the reference model fails in the no-scheme state; " +
		"non-trivial = the input parses and reporting records at least one entry, or the default fails after entering at least 3 states; distinct by hash of (input, base)",
	Gen:   Gen15,
	Check: Check15,
})
