package props

import (
	"bufio"
	"encoding/json"
	"os"
	"testing"

	"pgregory.net/rapid"

	"verif/harness/spec"
)

// TestNodeDump is a development tool, not a check (tools/nodediff.sh, DESIGN §3.3 item 5): it draws
// cases from the C01 and setter-history generators, records what the *reference model* says about
// each, and writes them as JSON lines ($VERIF_NODEDUMP) for tools/nodediff.js, which asks a third
// implementation of the standard (the URL class of node, where one is installed) the same
// questions. Strings are written as scalar-value strings (an invalid UTF-8 byte is U+FFFD), which is
// how the properties read a Go string.
func TestNodeDump(t *testing.T) {
	path := os.Getenv("VERIF_NODEDUMP")
	if path == "" {
		t.Skip("VERIF_NODEDUMP not set")
	}
	f, err := os.Create(path)
	if err != nil {
		t.Fatal(err)
	}
	defer f.Close()
	w := bufio.NewWriter(f)
	defer w.Flush()
	enc := json.NewEncoder(w)
	enc.SetEscapeHTML(false)
	sv := func(s string) string { return string([]rune(s)) }
	type step struct {
		Setter string    `json:"setter"`
		Value  string    `json:"value"`
		Obs    *spec.Obs `json:"obs"`
	}
	type rec struct {
		Input   string    `json:"input"`
		Base    string    `json:"base"`
		HasBase bool      `json:"has_base"`
		OK      bool      `json:"ok"`
		Obs     *spec.Obs `json:"obs,omitempty"`
		Steps   []step    `json:"steps,omitempty"`
		// form-urlencoded codec (kind "q"): Query parsed by the model into Pairs, those serialized again,
		// and the pairs after the standard's sort (by name in UTF-16 code units, stable)
		Kind   string      `json:"kind,omitempty"`
		Query  string      `json:"query,omitempty"`
		Pairs  [][2]string `json:"pairs,omitempty"`
		Ser    string      `json:"ser,omitempty"`
		Sorted [][2]string `json:"sorted,omitempty"`
	}
	rapid.Check(t, func(t *rapid.T) {
		k := rapid.IntRange(0, 2).Draw(t, "kind")
		if k == 2 {
			q := sv(genQuery(t))
			if rapid.IntRange(0, 3).Draw(t, "order") == 0 {
				q = sv(genOrderQuery(t))
			}
			r := rec{Kind: "q", Query: q, Pairs: [][2]string{}, Sorted: [][2]string{}}
			l := spec.ParseURLEncoded(q)
			for _, p := range l {
				r.Pairs = append(r.Pairs, [2]string{p.Name, p.Value})
			}
			r.Ser = spec.SerializeURLEncoded(l)
			for _, p := range listModel(collapseList(l)).apply(SPOp{Op: "sort"}) {
				r.Sorted = append(r.Sorted, [2]string{p.Name, p.Value})
			}
			_ = enc.Encode(r)
			return
		}
		if k == 0 {
			c := Gen01(t)
			c.Input, c.Base = B(sv(string(c.Input))), B(sv(string(c.Base)))
			var tr spec.Trace
			mu, mok, _ := modelParse(Model, c, &tr)
			r := rec{Input: string(c.Input), Base: string(c.Base), HasBase: c.HasBase && c.Base != "", OK: mok}
			if mok {
				o := mu.Obs()
				r.Obs = &o
			}
			_ = enc.Encode(r)
			return
		}
		c := genHistory(t, histOpts{maxOps: 6, start: "pair"})
		c.Input, c.Base = B(sv(string(c.Input))), B(sv(string(c.Base)))
		var tr spec.Trace
		mu, mok, _ := modelParse(Model, c.start(), &tr)
		r := rec{Input: string(c.Input), Base: string(c.Base), HasBase: c.HasBase && c.Base != "", OK: mok}
		if mok {
			o := mu.Obs()
			r.Obs = &o
			for _, op := range c.Ops {
				if op.Kind != "set" || op.Cur {
					continue
				}
				v := sv(string(op.Value))
				Model.Set(mu, op.Setter, v)
				o := mu.Obs()
				r.Steps = append(r.Steps, step{spec.SetterNames[op.Setter], v, &o})
			}
		}
		_ = enc.Encode(r)
	})
}
