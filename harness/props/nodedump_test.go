package props

import (
	"bufio"
	"encoding/json"
	"os"
	"testing"

	"pgregory.net/rapid"

	"verif/harness/spec"
)

// TestNodeDump is a development tool, not a check (tools/nodediff.sh, DESIGN §3.3 item 5): it draws
// cases from the C01 and setter-history generators, records what the *reference model* says about
// each, and writes them as JSON lines ($VERIF_NODEDUMP) for tools/nodediff.js, which asks a third
// implementation of the standard (the URL class of node, where one is installed) the same
// questions. Strings are written as scalar-value strings (an invalid UTF-8 byte is U+FFFD), which is
// how the properties read a Go string.
func TestNodeDump(t *testing.T) {
	path := os.Getenv("VERIF_NODEDUMP")
	if path == "" {
		t.Skip("VERIF_NODEDUMP not set")
	}
	f, err := os.Create(path)
	if err != nil {
		t.Fatal(err)
	}
	defer f.Close()
	w := bufio.NewWriter(f)
	defer w.Flush()
	enc := json.NewEncoder(w)
	enc.SetEscapeHTML(false)
	sv := func(s string) string { return string([]rune(s)) }
	type step struct {
		Setter string    `json:"setter"`
		Value  string    `json:"value"`
		Obs    *spec.Obs `json:"obs"`
	}
	type rec struct {
		Input   string    `json:"input"`
		Base    string    `json:"base"`
		HasBase bool      `json:"has_base"`
		OK      bool      `json:"ok"`
		Obs     *spec.Obs `json:"obs,omitempty"`
		Steps   []step    `json:"steps,omitempty"`
	}
	rapid.Check(t, func(t *rapid.T) {
		if rapid.IntRange(0, 1).Draw(t, "kind") == 0 {
			c := Gen01(t)
			c.Input, c.Base = B(sv(string(c.Input))), B(sv(string(c.Base)))
			var tr spec.Trace
			mu, mok, _ := modelParse(Model, c, &tr)
			r := rec{Input: string(c.Input), Base: string(c.Base), HasBase: c.HasBase && c.Base != "", OK: mok}
			if mok {
				o := mu.Obs()
				r.Obs = &o
			}
			_ = enc.Encode(r)
			return
		}
		c := genHistory(t, histOpts{maxOps: 6, start: "pair"})
		c.Input, c.Base = B(sv(string(c.Input))), B(sv(string(c.Base)))
		var tr spec.Trace
		mu, mok, _ := modelParse(Model, c.start(), &tr)
		r := rec{Input: string(c.Input), Base: string(c.Base), HasBase: c.HasBase && c.Base != "", OK: mok}
		if mok {
			o := mu.Obs()
			r.Obs = &o
			for _, op := range c.Ops {
				if op.Kind != "set" || op.Cur {
					continue
				}
				v := sv(string(op.Value))
				Model.Set(mu, op.Setter, v)
				o := mu.Obs()
				r.Steps = append(r.Steps, step{spec.SetterNames[op.Setter], v, &o})
			}
		}
		_ = enc.Encode(r)
	})
}
