package props

import (
	"strings"

	"github.com/nlnwa/whatwg-url/canonicalizer"
	"github.com/nlnwa/whatwg-url/url"
	"golang.org/x/text/encoding/charmap"
	"pgregory.net/rapid"

	"verif/harness/core"
	"verif/harness/gen"
	"verif/harness/spec"
)

// C01 — parsing conforms to the basic URL parser, with and without a base.

type Case01 struct {
	Input   B    `json:"input"`
	Base    B    `json:"base"`
	HasBase bool `json:"has_base"`
}

// modelParse runs the model on (input, base?). The empty base string means "no base" (DESIGN §7.2).
func modelParse(env *spec.Env, c Case01, tr *spec.Trace) (*spec.URL, bool, *spec.URL) {
	var mb *spec.URL
	if c.HasBase && c.Base != "" {
		b, ok := env.Parse(string(c.Base), nil)
		if !ok {
			*tr = spec.Trace{}
			return nil, false, nil
		}
		mb = b
	}
	u, ok := env.ParseT(string(c.Input), mb, tr)
	return u, ok, mb
}

// implParses runs the three real entry points.
func implParses(c Case01) (names []string, res []parsed) {
	in, base := string(c.Input), string(c.Base)
	if !c.HasBase {
		u, err := url.Parse(in)
		names, res = append(names, "url.Parse"), append(res, parsed{u, err})
		u, err = DefaultParser.Parse(in)
		names, res = append(names, "Parser.Parse"), append(res, parsed{u, err})
		u, err = url.ParseRef("", in)
		names, res = append(names, "url.ParseRef(\"\",…)"), append(res, parsed{u, err})
		return
	}
	u, err := url.ParseRef(base, in)
	names, res = append(names, "url.ParseRef"), append(res, parsed{u, err})
	u, err = DefaultParser.ParseRef(base, in)
	names, res = append(names, "Parser.ParseRef"), append(res, parsed{u, err})
	if base != "" {
		b, berr := url.Parse(base)
		if berr != nil {
			names, res = append(names, "(*Url).Parse"), append(res, parsed{nil, berr})
		} else {
			u, err = b.Parse(in)
			names, res = append(names, "(*Url).Parse"), append(res, parsed{u, err})
		}
	}
	return
}

// interfere01 makes an unrelated call on the same default parser just before the calls under test:
// the same text with a scheme of the other class. A result must not depend on what was parsed before
// (caches keyed too coarsely, state left behind by a previous call).
var interferingParsers = []url.Parser{url.NewParser(url.WithLaxHostParsing(), url.WithAcceptInvalidCodepoints(), url.WithPercentEncodeSinglePercentSign())}

// moreInterferingParsers: one of them (chosen by the input's length) parses the same input as well —
// configurations that carry tables of their own (a special-scheme map with other entries, replaced
// percent-encode sets, an encoding override, host callbacks) and the predefined profiles. Nothing a
// differently configured parser holds or does may show in the default parser's result.
var moreInterferingParsers = []url.Parser{
	url.NewParser(url.WithSpecialSchemes(map[string]string{"http": "8080", "gopher": "70", "foo": "1", "file": "", "zz": ""}), url.WithCollapseConsecutiveSlashes(), url.WithSkipWindowsDriveLetterNormalization(),
		url.WithPathPercentEncodeSet(url.PathPercentEncodeSet.Set('a', '~', '%').Clear('{', '}')), url.WithQueryPercentEncodeSet(url.QueryPercentEncodeSet.Set('\'', 'b')),
		url.WithSpecialQueryPercentEncodeSet(url.SpecialQueryPercentEncodeSet.Clear('\'').Set('c')), url.WithFragmentPathPercentEncodeSet(url.FragmentPercentEncodeSet.Set('d').Clear('`'))),
	url.NewParser(url.WithEncodingOverride(charmap.ISO8859_1), url.WithPreParseHostFunc(func(u *url.Url, h string) string { return strings.TrimSuffix(h, ".") }),
		url.WithPostParseHostFunc(func(u *url.Url, h string) string { return strings.ToUpper(h) }), url.WithReportValidationErrors(), url.WithAllowSettingPathForNonBaseUrl(), url.WithSkipTrailingSlashNormalization(), url.WithSkipEqualsForEmptySearchParamsValue()),
	canonicalizer.GoogleSafeBrowsing,
	canonicalizer.Semantic,
	canonicalizer.WhatWgSortQuery,
}

func interfere01(c Case01) {
	in := string(c.Input)
	// the byte-identical input through a differently configured parser: package-level memos keyed
	// without the configuration would leak from one parser into another
	for _, ip := range interferingParsers {
		_, _ = ip.Parse(in)
	}
	_, _ = moreInterferingParsers[len(in)%len(moreInterferingParsers)].Parse(in)
	sc := gen.SchemeOf(preprocess(in))
	if sc == "" {
		_, _ = url.Parse("foo:" + in)
		return
	}
	i := strings.IndexByte(in, ':')
	if i < 0 {
		return
	}
	other := "foo"
	if !isSpecialScheme(sc) {
		other = "http"
	}
	_, _ = url.Parse(other + in[i:])
}

func compare01(env *spec.Env, c Case01, tr *spec.Trace) (msg string, mu *spec.URL, mok bool) {
	mu, mok, _ = modelParse(env, c, tr)
	interfere01(c)
	names, res := implParses(c)
	for i, p := range res {
		if p.err == nil && p.u == nil {
			return names[i] + " returned (nil, nil)", mu, mok
		}
		if p.ok() != mok {
			if mok {
				return names[i] + " fails (" + p.err.Error() + ") but the standard's parser succeeds with " + mu.Href(), mu, mok
			}
			return names[i] + " succeeds with " + p.u.Href(false) + " but the standard's parser fails in state " + tr.FailedIn(), mu, mok
		}
		if mok {
			if d := DiffObs(ObsOf(p.u), mu.Obs()); d != "" {
				return names[i] + ": " + d, mu, mok
			}
		}
	}
	return "", mu, mok
}

func Check01(c Case01, r *core.Rec) {
	var tr spec.Trace
	msg, mu, mok := compare01(Model, c, &tr)
	for _, s := range tr.StateNames() {
		r.Class("state:" + s)
	}
	if tr.Failed {
		r.Class("fail-in:" + tr.FailedIn())
	}
	if c.HasBase {
		r.Class("with-base")
	} else {
		r.Class("no-base")
	}
	if mok {
		r.Class("model:ok")
		r.Class("host:" + hostKind(mu))
	} else {
		r.Class("model:failure")
	}
	if tr.NumStates() >= 4 { // scheme-start + at least three more
		r.NT()
	}
	if msg == "" {
		return
	}
	r.Failf("%s", msg)
}

func hostKind(u *spec.URL) string {
	switch {
	case u.Host == nil:
		return "null"
	case *u.Host == "":
		return "empty"
	case (*u.Host)[0] == '[':
		return "ipv6"
	case !u.IsSpecial():
		return "opaque"
	case isDottedDecimal(*u.Host):
		return "ipv4"
	default:
		return "domain"
	}
}

func isDottedDecimal(h string) bool {
	parts, n, digits := 0, 0, 0
	for i := 0; i <= len(h); i++ {
		if i == len(h) || h[i] == '.' {
			if digits == 0 || n > 255 {
				return false
			}
			parts++
			n, digits = 0, 0
			continue
		}
		if h[i] < '0' || h[i] > '9' {
			return false
		}
		if digits > 0 && n == 0 {
			return false // leading zero
		}
		n = n*10 + int(h[i]-'0')
		digits++
		if digits > 3 {
			return false
		}
	}
	return parts == 4
}

func Gen01(t *rapid.T) Case01 {
	in, base, has := gen.InputWithBase(t)
	return Case01{Input: B(in), Base: B(base), HasBase: has}
}

var P01 = core.Register(core.Prop[Case01]{
	ID: "C01",
	Rule: "cases are (input, base?) pairs drawn from the mixture grammar 35% / mutated WPT vectors 30% / token soup 25% / arbitrary 10% (40% without base; with a base half of the inputs are references conditioned on the base); " +
		"oracle: reference model of the standard, compared on failure and on Href + 9 getters through all three entry points; " +
		"non-trivial = the model entered at least 4 parser states (a bare rejection in no-scheme state is trivial); distinct by hash of (input, base, has_base)",
	Gen:   Gen01,
	Check: Check01,
})

// ---- C01.hist: (*Url).Parse on URL values that no string parses to ----------------------------------

// Check01Hist applies a setter history to the implementation and to the model in lock step (agreement
// about the setters themselves is C05's business: a disagreement there makes the case vacuous) and
// compares every resolution (*Url).Parse(ref) against the model's parse of ref with the model URL as
// base. Setters reach base URLs that no string parses to (file://h/C| after a protocol change,
// file://localhost/, an empty-but-present query after list operations, …).
func Check01Hist(c CaseHist, r *core.Rec) {
	var tr spec.Trace
	mu, mok, _ := modelParse(Model, c.start(), &tr)
	iu, err := implStart(c)
	if !mok || err != nil || iu == nil || ObsOf(iu) != mu.Obs() {
		r.Vacuous()
		return
	}
	setters, resolves := 0, 0
	for i, op := range c.Ops {
		switch op.Kind {
		case "set":
			val := valueFor(iu, op)
			Model.Set(mu, op.Setter, val)
			ApplySetter(iu, op.Setter, val)
			if ObsOf(iu) != mu.Obs() {
				r.Vacuous()
				return
			}
			setters++
		case "resolve":
			var tq spec.Trace
			mv, mvok := Model.ParseT(string(op.Value), mu, &tq)
			iv, ierr := iu.Parse(string(op.Value))
			if ierr == nil && iv == nil {
				r.Failf("after %s: (*Url).Parse returned (nil, nil)", histString(c, i))
				return
			}
			if (ierr == nil) != mvok {
				r.Failf("after %s: (*Url).Parse ok=%v (%v), the standard's parser ok=%v (state %s)", histString(c, i), ierr == nil, ierr, mvok, tq.FailedIn())
				return
			}
			resolves++
			if !mvok {
				continue
			}
			if d := DiffObs(ObsOf(iv), mv.Obs()); d != "" {
				r.Failf("after %s: resolving against the URL value %s: %s", histString(c, i), quote(iu.Href(false)), d)
				return
			}
			iu, mu = iv, mv
			r.Class("resolve-after-setters")
		}
	}
	if setters >= 1 && resolves >= 1 {
		r.NT()
	}
}

var c01HistRefs = []string{"x", "..", "../y", "/z", "?q", "#f", "", "C|/w", "//h2/p", "./", "a/../b", "\\\\h3\\p", "file:x", "http:x"}

func Gen01Hist(t *rapid.T) CaseHist {
	c := genHistory(t, histOpts{maxOps: 6, start: "setter"})
	n := rapid.IntRange(1, 3).Draw(t, "nresolve")
	for i := 0; i < n; i++ {
		ref := gen.Pick(t, "href", c01HistRefs)
		if rapid.IntRange(0, 2).Draw(t, "genref") == 0 {
			ref = gen.Ref(t, "ref", "")
		}
		c.Ops = append(c.Ops, Op{Kind: "resolve", Value: B(ref)})
		if rapid.IntRange(0, 2).Draw(t, "moreSetters") == 0 {
			w := rapid.IntRange(0, spec.NumSetters-1).Draw(t, "setter2")
			c.Ops = append(c.Ops, Op{Kind: "set", Setter: w, Value: B(gen.SetterValue(t, "value2", w))})
		}
	}
	return c
}

var P01h = core.Register(core.Prop[CaseHist]{
	ID: "C01.hist",
	Rule: "a start URL, 0..6 setter calls, then 1..3 resolutions (*Url).Parse(ref) against the URL value reached (interleaved with further setters), applied in lock step to the implementation and the reference model; setters reach base URLs that no string parses to; " +
		"oracle: every resolution agrees with the model's parse of the reference against the model's URL (failure, Href, 9 getters); a disagreement about a setter step makes the case vacuous (C05 decides those); " +
		"non-trivial = at least one setter and one resolution were evaluated; distinct by hash of the history",
	Gen:   Gen01Hist,
	Check: Check01Hist,
})
