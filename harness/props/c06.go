package props

import (
	"strings"

	"github.com/nlnwa/whatwg-url/canonicalizer"
	"github.com/nlnwa/whatwg-url/url"
	"pgregory.net/rapid"

	"verif/harness/core"
	"verif/harness/gen"
)

// C06 — reference resolution obeys the laws users rely on (model-free).

type Case06 struct {
	Base  B `json:"base"`
	Ref   B `json:"ref"`
	Base2 B `json:"base2"` // unrelated base for "absolute is absolute"
	Frag  B `json:"frag"`  // text for the '#f' law
	Query B `json:"query"` // text for the '?q' law
	Blank B `json:"blank"` // a reference made of C0 control / space / tab / newline only (trimmed to empty)
	// Touch: the parsed base's SearchParams() were read (Has / Get) before anything was resolved
	// against it; reading must not change what resolution yields
	Touch bool `json:"touch,omitempty"`
}

// preprocess does what the parser does to a fresh input before the state machine: trim leading and
// trailing C0 control or space, remove ASCII tab and newline.
func preprocess(s string) string {
	rs := []rune(s)
	i, j := 0, len(rs)
	for i < j && rs[i] <= 0x20 {
		i++
	}
	for j > i && rs[j-1] <= 0x20 {
		j--
	}
	var sb strings.Builder
	for _, r := range rs[i:j] {
		if r != '\t' && r != '\n' && r != '\r' {
			sb.WriteRune(r)
		}
	}
	return sb.String()
}

func hasSchemePrefix(s string) bool { return gen.SchemeOf(s) != "" }

func sameURL(a, b *url.Url) string { return DiffObs(ObsOf(a), ObsOf(b)) }

func baseKind(b *url.Url) string {
	switch {
	case b.OpaquePath():
		return "opaque"
	case b.Protocol() == "file:":
		return "file"
	case b.IsSpecialScheme():
		return "special"
	case hasAuthority(b):
		return "nonspecial-host"
	}
	return "nonspecial-nohost"
}

func Check06(c Case06, r *core.Rec) {
	B0, ref := string(c.Base), string(c.Ref)
	// ---- (a) the three ways agree -------------------------------------------------------------
	u1, e1 := url.ParseRef(B0, ref)
	u2, e2 := DefaultParser.ParseRef(B0, ref)
	if (e1 == nil) != (e2 == nil) {
		r.Failf("law a: url.ParseRef(%s, %s) err=%v but Parser.ParseRef err=%v", quote(B0), quote(ref), e1, e2)
		return
	}
	if e1 == nil {
		if u1 == nil || u2 == nil {
			r.Failf("law a: ParseRef(%s, %s) returned (nil, nil)", quote(B0), quote(ref))
			return
		}
		if d := sameURL(u1, u2); d != "" {
			r.Failf("law a: url.ParseRef and Parser.ParseRef differ on (%s, %s): %s", quote(B0), quote(ref), d)
			return
		}
	}
	var b *url.Url
	if B0 == "" {
		// the empty base string means "no base"
		u3, e3 := url.Parse(ref)
		if (e1 == nil) != (e3 == nil) || (e1 == nil && sameURL(u1, u3) != "") {
			r.Failf("law a: url.ParseRef(\"\", %s) differs from url.Parse(%s)", quote(ref), quote(ref))
			return
		}
		r.Class("a:no-base")
	} else {
		var berr error
		b, berr = url.Parse(B0)
		if berr != nil || b == nil {
			if e1 == nil {
				r.Failf("law a: base %s does not parse (%v) but url.ParseRef(base, %s) succeeds with %s", quote(B0), berr, quote(ref), u1.Href(false))
				return
			}
			r.Class("a:base-unparseable")
			r.Vacuous()
			return
		}
		if c.Touch {
			sp := b.SearchParams()
			_ = sp.Has("a")
			_ = sp.Get("b")
			r.Class("base-list-read")
		}
		before := ObsOf(b)
		u3, e3 := b.Parse(ref)
		if ObsOf(b) != before {
			r.Failf("resolving %s changed the base %s: %s", quote(ref), quote(B0), DiffObs(ObsOf(b), before))
			return
		}
		if (e1 == nil) != (e3 == nil) {
			r.Failf("law a: url.ParseRef(%s, %s) err=%v but (*Url).Parse err=%v", quote(B0), quote(ref), e1, e3)
			return
		}
		if e1 == nil {
			if d := sameURL(u3, u1); d != "" {
				r.Failf("law a: (*Url).Parse and url.ParseRef differ on (%s, %s): %s", quote(B0), quote(ref), d)
				return
			}
		}
		r.Class("a:" + baseKind(b))
		if ref != "" {
			r.NT()
		}
	}

	// ---- (b) absolute is absolute ------------------------------------------------------------------
	b2, b2err := url.Parse(string(c.Base2))
	if b2err == nil && b2 != nil {
		res := u1
		if e1 != nil {
			res = nil
		}
		for _, u := range []*url.Url{res, b} {
			if u == nil {
				continue
			}
			href := u.Href(false)
			v, err := b2.Parse(href)
			if err != nil || v == nil {
				if isA7(u) {
					r.Known("KF-C06-ace-std3", "law b: %s does not resolve against %s: %v", quote(href), quote(string(c.Base2)), err)
					continue
				}
				r.Failf("law b: the serialization %s does not resolve against base %s: %v", quote(href), quote(string(c.Base2)), err)
				return
			}
			if d := sameURL(v, u); d != "" {
				r.Failf("law b: the serialization %s resolved against base %s is a different URL: %s", quote(href), quote(string(c.Base2)), d)
				return
			}
			r.Class("b:" + baseKind(b2))
		}
	}
	if b == nil {
		return
	}
	opaque := b.OpaquePath()
	bo := ObsOf(b)

	// ---- (c) empty reference ---------------------------------------------------------------------------
	for _, empty := range []string{"", string(c.Blank)} {
		v, err := b.Parse(empty)
		if opaque {
			if err == nil {
				r.Failf("law d: base %s has an opaque path but accepts the empty reference %s", quote(B0), quote(empty))
				return
			}
			continue
		}
		if err != nil || v == nil {
			r.Failf("law c: the empty reference %s does not resolve against %s: %v", quote(empty), quote(B0), err)
			return
		}
		vo := ObsOf(v)
		want := bo
		want[0] = b.Href(true) // href without fragment
		want[9] = ""
		if vo != want {
			r.Failf("law c: the empty reference %s against %s is not the base without its fragment: %s", quote(empty), quote(B0), DiffObs(vo, want))
			return
		}
		if strings.Contains(v.Href(false), "#") {
			r.Failf("law c: the empty reference against %s kept a fragment delimiter: %s", quote(B0), v.Href(false))
			return
		}
		r.Class("c:" + baseKind(b))
	}

	// ---- (d) fragment-only -----------------------------------------------------------------------------
	{
		fr := "#" + string(c.Frag)
		v, err := b.Parse(fr)
		if err != nil || v == nil {
			r.Failf("law d: the fragment-only reference %s does not resolve against %s: %v", quote(fr), quote(B0), err)
			return
		}
		fixed := "foo://x/p?q"
		if b.IsSpecialScheme() {
			fixed = "http://x/p?q"
		}
		w, werr := url.ParseRef(fixed, fr)
		if werr != nil {
			r.Failf("law d: %s does not resolve against the fixed base %s: %v", quote(fr), fixed, werr)
			return
		}
		vo := ObsOf(v)
		want := bo
		want[9] = w.Hash()
		want[0] = b.Href(true) + "#" + w.Fragment()
		if vo != want {
			r.Failf("law d: %s against %s changed more than the fragment (or encodes it differently than against %s): %s", quote(fr), quote(B0), fixed, DiffObs(vo, want))
			return
		}
		if v.Href(true) != b.Href(true) {
			r.Failf("law d: %s against %s changed the part before the fragment: %s vs %s", quote(fr), quote(B0), v.Href(true), b.Href(true))
			return
		}
		r.Class("d:" + baseKind(b))
		if opaque {
			// … and is the only kind of relative reference a base with an opaque path accepts
			pre := preprocess(ref)
			if !hasSchemePrefix(pre) && !strings.HasPrefix(pre, "#") {
				if e1 == nil {
					r.Failf("law d: base %s has an opaque path but accepts the relative reference %s (result %s)", quote(B0), quote(ref), u1.Href(false))
					return
				}
				r.Class("d:opaque-rejects")
			}
		}
	}

	// ---- (d') the opaque-path law for every Parser: a profile's ParseRef must not accept what the URL
	// it wraps refuses. For a base that the profile parses to an opaque path, a scheme-less reference
	// that does not start with '#' fails through the profile's ParseRef too; and the WhatWg profile,
	// which canonicalizes nothing, agrees with the package functions on every (base, reference).
	if opaque {
		pre := preprocess(ref)
		if !hasSchemePrefix(pre) && !strings.HasPrefix(pre, "#") {
			for _, pr := range c06Profiles {
				if pb, perr := pr.p.Parse(B0); perr != nil || pb == nil || !pb.OpaquePath() {
					continue
				}
				if pu, perr := pr.p.ParseRef(B0, ref); perr == nil {
					r.Failf("law d: base %s has an opaque path but %s.ParseRef accepts the relative reference %s (result %s)", quote(B0), pr.name, quote(ref), pu.Href(false))
					return
				}
				r.Class("d:profile-opaque-rejects")
			}
		}
	}
	{
		wu, werr := canonicalizer.WhatWg.ParseRef(B0, ref)
		if (werr == nil) != (e1 == nil) || (e1 == nil && sameURL(wu, u1) != "") {
			r.Failf("law a: canonicalizer.WhatWg.ParseRef(%s, %s) differs from url.ParseRef (err %v vs %v)", quote(B0), quote(ref), werr, e1)
			return
		}
	}

	// ---- (e) query-only --------------------------------------------------------------------------------
	if !opaque {
		qr := "?" + string(c.Query)
		v, err := b.Parse(qr)
		if err != nil || v == nil {
			r.Failf("law e: the query-only reference %s does not resolve against %s: %v", quote(qr), quote(B0), err)
			return
		}
		fixed := "foo://x/p?old#old"
		if b.IsSpecialScheme() {
			fixed = "http://x/p?old#old"
		}
		w, werr := url.ParseRef(fixed, qr)
		if werr != nil {
			r.Failf("law e: %s does not resolve against the fixed base %s: %v", quote(qr), fixed, werr)
			return
		}
		vo := ObsOf(v)
		for _, i := range []int{1, 2, 3, 4, 5, 6, 7} {
			if vo[i] != bo[i] {
				r.Failf("law e: %s against %s changed %s: %q -> %q", quote(qr), quote(B0), obsName(i), bo[i], vo[i])
				return
			}
		}
		if v.Search() != w.Search() || v.Hash() != w.Hash() || v.Query() != w.Query() {
			r.Failf("law e: %s against %s gives search %q hash %q, against %s search %q hash %q", quote(qr), quote(B0), v.Search(), v.Hash(), fixed, w.Search(), w.Hash())
			return
		}
		if !strings.Contains(preprocess(qr), "#") && (v.Hash() != "" || strings.Contains(v.Href(false), "#")) {
			r.Failf("law e: %s against %s kept a fragment: %s", quote(qr), quote(B0), v.Href(false))
			return
		}
		r.Class("e:" + baseKind(b))
	}

	// ---- (f) scheme inheritance ------------------------------------------------------------------------------
	if e1 == nil && !hasSchemePrefix(preprocess(ref)) {
		if u1.Protocol() != b.Protocol() {
			r.Failf("law f: the scheme-less reference %s against %s yields scheme %s", quote(ref), quote(B0), u1.Protocol())
			return
		}
		r.Class("f:" + baseKind(b))
	}
}

var c06Profiles = []struct {
	name string
	p    url.Parser
}{{"WhatWg", canonicalizer.WhatWg}, {"WhatWgSortQuery", canonicalizer.WhatWgSortQuery}, {"GoogleSafeBrowsing", canonicalizer.GoogleSafeBrowsing}, {"Semantic", canonicalizer.Semantic}}

func obsName(i int) string {
	return [...]string{"href", "protocol", "username", "password", "host", "hostname", "port", "pathname", "search", "hash"}[i]
}

var blanks = []string{" ", "\t", "\n", "  \r\n ", "\x00", "\x1f \t", "\x0c"}

func Gen06(t *rapid.T) Case06 {
	var c Case06
	if rapid.IntRange(0, 11).Draw(t, "emptyBase") == 0 {
		c.Base = ""
	} else {
		c.Base = B(gen.BaseString(t, "base"))
	}
	if k := rapid.IntRange(0, 15).Draw(t, "refKind"); k == 0 {
		c.Ref = c.Base // the base string itself as the reference
	} else if k <= 4 {
		c.Ref = B(gen.Input(t, "ref"))
	} else {
		c.Ref = B(gen.Ref(t, "ref", gen.SchemeOf(string(c.Base))))
	}
	c.Base2 = B(gen.BaseString(t, "base2"))
	switch rapid.IntRange(0, 3).Draw(t, "fragKind") {
	case 0:
		c.Frag = B(gen.Soup(t, "frag", 4))
	case 1:
		c.Frag = B(gen.Any(t, "frag"))
	default:
		c.Frag = B(strings.TrimPrefix(gen.Pick(t, "frag", gen.SetterPools[8]), "#"))
	}
	switch rapid.IntRange(0, 3).Draw(t, "queryKind") {
	case 0:
		c.Query = B(gen.Soup(t, "query", 4))
	case 1:
		c.Query = B(gen.Any(t, "query"))
	default:
		c.Query = B(strings.TrimPrefix(gen.Pick(t, "query", gen.SetterPools[7]), "?"))
	}
	c.Blank = B(gen.Pick(t, "blank", blanks))
	c.Touch = rapid.IntRange(0, 2).Draw(t, "touch") == 0
	if c.Touch && rapid.IntRange(0, 1).Draw(t, "oddQuery") == 0 {
		c.Base = B(gen.Pick(t, "oddBase", []string{"http://h/p?a&&b=%41", "http://h/?x", "foo://h/p?k=v&", "http://h/p?a+b=c%20d#f", "file:///p?%zz&=", "foo:o?q=%26", "http://h/?&"}))
	}
	return c
}

var P06 = core.Register(core.Prop[Case06]{
	ID: "C06",
	Rule: "a base string of every kind (grammar, WPT bases, mutated WPT hrefs, extreme starts, soup; 1/12 empty = no base), a reference (G-ref conditioned on the base, or a C01 input), a second unrelated base, fragment and query texts; " +
		"oracle (no model): (a) url.ParseRef, Parser.ParseRef and (*Url).Parse agree, (b) a URL's serialization resolves to itself against any base, (c) the empty / blank reference yields the base without fragment, (d) '#f' changes only the fragment and is all an opaque-path base accepts, (e) '?q' replaces the query, drops the fragment, keeps the rest, (f) a scheme-less reference inherits the base's scheme; " +
		"non-trivial = the base parses and the reference is non-empty; distinct by hash of the case",
	Gen:   Gen06,
	Check: Check06,
})
