package props

import (
	"strings"

	"github.com/nlnwa/whatwg-url/canonicalizer"
	"github.com/nlnwa/whatwg-url/url"
	"pgregory.net/rapid"

	"verif/harness/core"
	"verif/harness/gen"
	"verif/harness/spec"
)

// C17 — canonical output is a fixed point of its own canonicalizer.

// Profile16 names a predefined profile or a composition of the canonicalizer's own options.
type ProfileSpec struct {
	Name string  `json:"name"` // WhatWg, WhatWgSortQuery, GoogleSafeBrowsing, Semantic, composed
	Opts []Opt16 `json:"opts,omitempty"`
}

func (p ProfileSpec) parser() url.Parser {
	switch p.Name {
	case "WhatWg":
		return canonicalizer.WhatWg
	case "WhatWgSortQuery":
		return canonicalizer.WhatWgSortQuery
	case "GoogleSafeBrowsing":
		return canonicalizer.GoogleSafeBrowsing
	case "Semantic":
		return canonicalizer.Semantic
	}
	return newProfile(buildOptions(p.Opts))
}

func (p ProfileSpec) String() string {
	if p.Name != "composed" {
		return p.Name
	}
	return "New" + optNames(p.Opts)
}

func (p ProfileSpec) sorts() bool {
	if p.Name == "WhatWgSortQuery" || p.Name == "Semantic" {
		return true
	}
	for _, o := range p.Opts {
		if o.Name == "sort-query" && o.Sort != 0 {
			return true
		}
	}
	return false
}

// withoutSort is the same profile minus its sort option (WhatWgSortQuery -> WhatWg).
func (p ProfileSpec) withoutSort() ProfileSpec {
	if p.Name == "WhatWgSortQuery" {
		return ProfileSpec{Name: "WhatWg"}
	}
	q := ProfileSpec{Name: p.Name}
	for _, o := range p.Opts {
		if o.Name != "sort-query" {
			q.Opts = append(q.Opts, o)
		}
	}
	return q
}

func sortMode(p ProfileSpec) int {
	for _, o := range p.Opts {
		if o.Name == "sort-query" {
			return o.Sort
		}
	}
	return 1 // WhatWgSortQuery, Semantic: SortKeys
}

func (p ProfileSpec) decodes() bool {
	if p.Name == "GoogleSafeBrowsing" || p.Name == "Semantic" {
		return true
	}
	return hasOpt(p.Opts, "repeated-decoding")
}

func (p ProfileSpec) removesFragment() bool {
	if p.Name == "GoogleSafeBrowsing" || p.Name == "Semantic" {
		return true
	}
	return hasOpt(p.Opts, "remove-fragment")
}

func (p ProfileSpec) experimental() bool {
	return p.Name == "GoogleSafeBrowsing" || p.Name == "Semantic"
}

type Case17 struct {
	Profile ProfileSpec `json:"profile"`
	// either a raw input (option-composed profiles, WhatWg, WhatWgSortQuery) …
	Raw    B    `json:"raw"`
	UseRaw bool `json:"use_raw"`
	// … or a web URL in a spelling (GoogleSafeBrowsing, Semantic)
	Web      WebURL   `json:"web"`
	Spelling Spelling `json:"spelling"`
}

func splitQuery(href string) (before, query, after string, has bool) {
	h := href
	if i := strings.IndexByte(h, '#'); i >= 0 {
		after = h[i:]
		h = h[:i]
	}
	i := strings.IndexByte(h, '?')
	if i < 0 {
		return h, "", after, false
	}
	return h[:i], h[i+1:], after, true
}

func Check17(c Case17, r *core.Rec) {
	p := c.Profile.parser()
	var x string
	if c.UseRaw {
		if c.Profile.experimental() {
			r.Vacuous() // for the two experimental profiles the statement quantifies over the web grammar only
			return
		}
		x = string(c.Raw)
	} else {
		if !c.Web.InGrammar() {
			r.Vacuous()
			return
		}
		hostDepth := 1 // one level of escapes in a domain host is decoded by every parser; nested levels only by the lax, decoding profiles
		if c.Profile.experimental() {
			hostDepth = 16
		}
		x = c.Web.RenderH(c.Spelling, 16, hostDepth, true, true)
	}
	r.Class("profile:" + c.Profile.Name)
	interfereProfile(p, x)
	u1, err := p.Parse(x)
	if err != nil || u1 == nil {
		if !c.UseRaw && !c.Web.hasEmptyName() {
			r.Failf("%s rejects the ordinary web URL %s: %v", c.Profile, quote(x), err)
			return
		}
		r.Vacuous()
		return
	}
	s1 := u1.String()
	if s1 != x && (strings.Contains(x, "%") || strings.Contains(x, "?")) {
		r.NT()
	}
	interfereProfile(p, s1)
	u2, err := p.Parse(s1)
	if err != nil || u2 == nil {
		if isA7(u1) {
			r.Known("KF-C17-ace-std3", "%s: %s canonicalizes to %s, which does not parse again: %v", c.Profile, quote(x), quote(s1), err)
			return
		}
		r.Failf("%s: %s canonicalizes to %s, which the same profile rejects: %v", c.Profile, quote(x), quote(s1), err)
		return
	}
	s2 := u2.String()
	if s2 == s1 {
		return
	}
	// known findings, by classifier
	b1, q1, a1, _ := splitQuery(s1)
	b2, _, a2, _ := splitQuery(s2)
	onlyQuery := b1 == b2 && a1 == a2
	if onlyQuery && c.Profile.sorts() && !c.Profile.decodes() {
		// KF-C17-serializer: the sorted list is re-serialized leaving "% & = +" literal. Attributed
		// only if both passes did exactly what the recorded defect predicts: with L0 the decoded list
		// of the same profile WITHOUT its sort option, (1) L0 contains one of "% & = +", (2) s1's query
		// is the tree-style serialization of sorted L0, (3) s2's query is the tree-style serialization
		// of the sorted form-urlencoded parse of s1's query.
		if u0, err0 := c.Profile.withoutSort().parser().Parse(x); err0 == nil && u0 != nil {
			l0 := collapseList(lossyList(spec.ParseURLEncoded(u0.Query())))
			l1 := collapseList(lossyList(spec.ParseURLEncoded(q1)))
			_, q2, _, _ := splitQuery(s2)
			op := SPOp{Op: "sort"}
			if sortMode(c.Profile) == 2 {
				op = SPOp{Op: "sortabs"}
			}
			if hasCodecDelimiter(l0) && q1 == treeSerialize(l0.apply(op)) && q2 == treeSerialize(l1.apply(op)) {
				r.Known("KF-C17-serializer", "%s: %s -> %s -> %s", c.Profile, quote(x), quote(s1), quote(s2))
				return
			}
		}
	}
	// KF-C17-opaque-host-decoding: repeated decoding turns an escaped delimiter inside an opaque host
	// into a literal one and hands it to the hostname setter, which reads it structurally; whether the
	// setter then applies depends on credentials / port that later steps remove. Attributed only for
	// non-special URLs whose fully decoded host contains a forbidden host code point.
	if c.Profile.decodes() && !u1.IsSpecialScheme() && strings.Contains(u1.Hostname(), "%") {
		dec := u1.Hostname()
		for i := 0; i < 8; i++ {
			dec = string(spec.PercentDecode(dec))
		}
		if strings.IndexFunc(dec, spec.IsForbiddenHostCP) >= 0 {
			r.Known("KF-C17-opaque-host-decoding", "%s: %s -> %s -> %s", c.Profile, quote(x), quote(s1), quote(s2))
			return
		}
	}
	if onlyQuery && !c.UseRaw && c.Web.hasEmptyName() && c.Profile.experimental() {
		r.Known("KF-C17-empty-pair", "%s: %s -> %s -> %s", c.Profile, quote(x), quote(s1), quote(s2))
		return
	}
	r.Failf("%s is not idempotent: %s -> %s -> %s", c.Profile, quote(x), quote(s1), quote(s2))
}

func genComposed(t *rapid.T, forceDecoding bool) ProfileSpec {
	p := ProfileSpec{Name: "composed"}
	for _, n := range []string{"remove-user-info", "remove-port", "remove-fragment", "repeated-decoding"} {
		if rapid.IntRange(0, 1).Draw(t, n) == 1 || (forceDecoding && n == "repeated-decoding") {
			p.Opts = append(p.Opts, Opt16{Name: n})
		}
	}
	if rapid.IntRange(0, 1).Draw(t, "sort") == 1 {
		p.Opts = append(p.Opts, Opt16{Name: "sort-query", Sort: rapid.IntRange(1, 2).Draw(t, "sortmode")})
	}
	if rapid.IntRange(0, 2).Draw(t, "defscheme") == 0 {
		p.Opts = append(p.Opts, Opt16{Name: "default-scheme", Str: gen.Pick(t, "scheme", []string{"http", "https", "foo", "ftp"})})
	}
	// an option given twice, identically, is still that option (C18 uses this generator too: a
	// decoding profile whose decoding is written twice still decodes)
	if len(p.Opts) > 0 && rapid.IntRange(0, 3).Draw(t, "dup") == 0 {
		p.Opts = append(p.Opts, p.Opts[rapid.IntRange(0, len(p.Opts)-1).Draw(t, "dupwhich")])
	}
	return p
}

func Gen17(t *rapid.T) Case17 {
	var c Case17
	switch rapid.IntRange(0, 9).Draw(t, "profile") {
	case 0:
		c.Profile = ProfileSpec{Name: "WhatWg"}
	case 1:
		c.Profile = ProfileSpec{Name: "WhatWgSortQuery"}
	case 2, 3, 4:
		c.Profile = ProfileSpec{Name: "GoogleSafeBrowsing"}
	case 5, 6:
		c.Profile = ProfileSpec{Name: "Semantic"}
	default:
		c.Profile = genComposed(t, false)
	}
	if c.Profile.experimental() || rapid.IntRange(0, 2).Draw(t, "webinput") == 0 {
		c.Web = GenWebURL(t)
		c.Spelling = GenSpelling(t, "sp", true)
	} else {
		c.UseRaw = true
		switch rapid.IntRange(0, 6).Draw(t, "rawKind") {
		case 0:
			c.Raw = B(gen.Mutate(t, "mut", gen.StartURL(t, "raw")))
		case 1:
			c.Raw = B(gen.Pick(t, "canonhostile", c17Hostile))
		case 2:
			c.Raw = B("http://h/p?" + genLongQuery(t))
		case 3:
			// names whose order as written, decoded and serialized differ (C16's generator), short and long
			c.Raw = B(gen.Pick(t, "oqstart", []string{"http://h/p?", "foo://h/?", "a:b?"}) + genOrderQuery(t))
		default:
			c.Raw = B(gen.Input(t, "raw"))
		}
	}
	return c
}

// inputs where canonicalization steps interact with the URL's structure
var c17Hostile = []string{"data:x ?", "a:b ?#", "a:b  ?&&", "a:b ?&#f", "foo:o  ?=", "a:b #", "a:b  ?q# ", "foo://u:p@h:1/?&", "http://h/?&&", "http://h/?#", "http://h/?=", "http://u@h:80/?b&a#",
	"http://h/%4%31", "http://h/%%34%31", "http://h/#x%6%31", "http://h/?%4%31=%%36%31", "http://h/%25252525252525252525252541", "http://h/?a=%2525252525252525252525252541", "foo://u@%2f", "foo://%2f:80", "foo://h%3a1/", "foo://u:p@%5b/", "http://h/%252e%252e/x", "http://h/a/%2E%2e/b", "http://h/?%2B", "http://h/?a=%26&b", "http://h/?%25%36%31", "foo:/.//p", "foo:/p/..//x", "http://h//..//x?#",
	// an escaped (or doubled) delimiter at the start or inside each component: decoding must not let it be read structurally the second time
	"http://h/p#%23a", "http://h/p###a", "http://h/p#%2523#", "http://h/p#%23%23", "http://h/p?%3Fa", "http://h/p??a", "http://h/p?%253F", "http://h/%2Fa", "http://h/%252F%252Fa", "http://h//a", "http://h/p%3Fq", "http://h/p%23f", "http://h/p?q%23x",
	"http://u%40:p%3A@h/", "http://u%2540@h/", "foo://h/p#%23a", "foo:o#%23%23", "foo:o?%3F%23", "http://h/%5Cx", "http://h/a%2F..%2Fb", "http://h/?a=%23&b=%26%3D",
	// two or more delimiters in front (a setter that strips one per call eats one per pass), and an escaped tab / newline inside a would-be escape
	"http://h/p???a=1", "http://h/p?%3F%3Fa", "http://h/p?%3F%253Fa", "foo://h/p???", "http://h/p#%23%23%23", "http://h/p#%2%0952", "http://h/%2%0A52", "http://h/?a=%2%0D52", "http://h/p#%25%0932%0935", "http://h/p#%%0925",
	// nested escapes of bytes that are not valid UTF-8 (one more decoding level exposes them to whatever reads the text as UTF-8)
	"http://h/?a=%2580", "http://h/?%25FF=1&%25FE=2", "http://h/p%2580?q#%2580", "foo://h/?a=%25C3", "http://h/?a=%25C3%25A9", "http://h/?%2525E2%252582=x", "http://h/?b=%2580&a=%25FF",
	"file:///C|/../x", "file://localhost/C:/x#", "ws://h:80/?%20", "http://h:0080/", "HTTP://H/?B=1&A=2&a=3", "x:y?%zz&%", "foo://h/?a b&c\td", "example.com:80/p?b&a", "u:p@h/?q", "//h/?b&a"}

var P17 = core.Register(core.Prop[Case17]{
	ID: "C17",
	Rule: "profiles: WhatWg, WhatWgSortQuery and random compositions of remove-user-info / remove-port / remove-fragment / sort-query / default-scheme / repeated-percent-decoding on any input (C01's input mixture) and on web-grammar URLs; GoogleSafeBrowsing and Semantic on the ordinary-web-URL grammar (http/https/ftp/ws/wss; 1..4 LDH labels with an alphabetic start of the last label, or an IPv4 / IPv6 literal; optional unreserved credentials; default / empty / other port; 0..5 unreserved path segments; 0..4 parameters; optional fragment) in a random spelling (case flips, per-character percent-encoding nested to depth 0..3 incl. partially re-encoded hex digits, inserted dot segments in five spellings, tabs/newlines, surrounding C0/space, empty fragment); " +
		"oracle: p.Parse(x) fails (vacuous, except that web-grammar URLs must be accepted) or p.Parse(p.Parse(x).String()) succeeds with the same string; " +
		"non-trivial = the canonicalizer changed the input and the input has a percent-escape or a query; distinct by hash of the case",
	Gen:   Gen17,
	Check: Check17,
})
