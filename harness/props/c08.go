package props

import (
	"fmt"
	"strconv"
	"strings"

	"pgregory.net/rapid"

	"verif/harness/core"
	"verif/harness/gen"
	"verif/harness/spec"
)

// C08 — IPv6 hosts: accepted exactly per the standard, serialized canonically.

type Case08 struct {
	Text   B      `json:"text"`   // the host as written, brackets included (any arrangement)
	Scheme string `json:"scheme"` // "http", "foo", "file", "wss"
	Port   string `json:"port"`   // "" or ":8080"
	Via    string `json:"via"`    // "parse", "sethost", "sethostname"
	// Value, if set, is the address the text was rendered from (value-first cases): 8 pieces.
	Value []uint16 `json:"value,omitempty"`
}

// canonicalIPv6 is the standard's IPv6 serializer written independently of the model: lowercase hex
// without leading zeros, the first longest run of two or more zero pieces replaced by "::".
func canonicalIPv6(a [8]uint16) string {
	bestStart, bestLen := -1, 0
	for i := 0; i < 8; {
		if a[i] != 0 {
			i++
			continue
		}
		j := i
		for j < 8 && a[j] == 0 {
			j++
		}
		if j-i >= 2 && j-i > bestLen {
			bestStart, bestLen = i, j-i
		}
		i = j
	}
	var parts []string
	for i := 0; i < 8; i++ {
		parts = append(parts, strconv.FormatUint(uint64(a[i]), 16))
	}
	if bestStart < 0 {
		return strings.Join(parts, ":")
	}
	return strings.Join(parts[:bestStart], ":") + "::" + strings.Join(parts[bestStart+bestLen:], ":")
}

// expandIPv6 re-derives the 128-bit value from a canonical text (no IPv4 tail) by plain expansion.
func expandIPv6(s string) ([8]uint16, bool) {
	var a [8]uint16
	var head, tail []string
	if i := strings.Index(s, "::"); i >= 0 {
		if h := s[:i]; h != "" {
			head = strings.Split(h, ":")
		}
		if t := s[i+2:]; t != "" {
			tail = strings.Split(t, ":")
		}
		if len(head)+len(tail) > 7 {
			return a, false
		}
	} else {
		head = strings.Split(s, ":")
		if len(head) != 8 {
			return a, false
		}
	}
	for i, p := range head {
		v, err := strconv.ParseUint(p, 16, 16)
		if err != nil {
			return a, false
		}
		a[i] = uint16(v)
	}
	for i, p := range tail {
		v, err := strconv.ParseUint(p, 16, 16)
		if err != nil {
			return a, false
		}
		a[8-len(tail)+i] = uint16(v)
	}
	return a, true
}

func check08(c Case08, r *core.Rec) {
	text := string(c.Text)
	hostArg := text + c.Port
	got, ok, note := observeHost(c.Scheme, c.Via, hostArg)
	where := fmt.Sprintf("%s://%s/ via %s", c.Scheme, quote(hostArg), c.Via)
	// (iii) the reference model taking the same route decides accept/reject and the output for every
	// text, including those whose inner brackets or delimiters move the end of the host
	want, wok := modelObserveHost(c.Scheme, c.Via, hostArg)
	// independent oracle for texts without inner brackets or delimiters: accepted exactly when the
	// text is '[' + an address by the standard's IPv6 parser + ']' — one pair of brackets, no more
	inner, shape := stripBrackets(text)
	if !strings.ContainsAny(inner, "[]/?#\\@ \t\n\r\x00") && !(c.Via == "sethostname" && c.Port != "") {
		dok, dwant := false, ""
		if shape == "1-1" {
			if a, pok := spec.ParseIPv6(inner); pok {
				dok, dwant = true, "["+canonicalIPv6(a)+"]"
			}
		}
		if dok != wok || (dok && dwant != want) {
			r.Failf("%s: the two oracles disagree (model: %v %q, direct: %v %q) — harness error", where, wok, want, dok, dwant)
			return
		}
		r.Class("direct-oracle")
	}
	if ok != wok {
		r.Failf("%s: accepted=%v (%s), the standard says accepted=%v", where, ok, note, wok)
		return
	}
	if !ok {
		r.Class("rejected")
		return
	}
	r.Class("accepted")
	if got != want {
		r.Failf("%s: Hostname() %q, canonical form is %q", where, got, want)
		return
	}
	// value oracle
	if len(c.Value) == 8 {
		var v [8]uint16
		copy(v[:], c.Value)
		if exp := "[" + canonicalIPv6(v) + "]"; got != exp {
			r.Failf("%s: rendered from the address %v whose canonical text is %s, but Hostname() is %q", where, c.Value, exp, got)
			return
		}
		back, bok := expandIPv6(got[1 : len(got)-1])
		if !bok || back != v {
			r.Failf("%s: Hostname() %q does not denote the address %v it was rendered from", where, got, c.Value)
			return
		}
		r.Class("value-oracle")
	}
	// idempotence: serializing then parsing is the identity
	again, aok, _ := observeHost("http", "parse", got)
	if !aok || again != got {
		r.Failf("%s: reparsing the serialized host %q gives %q accepted=%v", where, got, again, aok)
	}
}

func Check08(c Case08, r *core.Rec) {
	text := string(c.Text)
	inner := strings.Trim(text, "[]")
	pieces := strings.Count(inner, ":") + 1
	if strings.Contains(inner, "::") || strings.Contains(inner, ".") || pieces >= 6 {
		r.NT()
	}
	r.Class("scheme:" + c.Scheme)
	r.Class("via:" + c.Via)
	r.Class("brackets:" + bracketShape(text))
	check08(c, r)
}

// stripBrackets removes all leading '[' and trailing ']' and reports how many there were.
func stripBrackets(text string) (inner, shape string) {
	shape = bracketShape(text)
	for len(text) > 0 && text[0] == '[' {
		text = text[1:]
	}
	for len(text) > 0 && text[len(text)-1] == ']' {
		text = text[:len(text)-1]
	}
	return text, shape
}

func bracketShape(text string) string {
	open, close := 0, 0
	for len(text) > 0 && text[0] == '[' {
		open++
		text = text[1:]
	}
	for len(text) > 0 && text[len(text)-1] == ']' {
		close++
		text = text[:len(text)-1]
	}
	return fmt.Sprintf("%d-%d", open, close)
}

// ---- generators ---------------------------------------------------------------------------------

func renderIPv6(t *rapid.T, v [8]uint16) string {
	// choose a zero run to compress (any run of length >= 1, or none)
	type run struct{ s, l int }
	var runs []run
	for i := 0; i < 8; {
		if v[i] != 0 {
			i++
			continue
		}
		j := i
		for j < 8 && v[j] == 0 {
			j++
		}
		runs = append(runs, run{i, j - i})
		i = j
	}
	comp := run{-1, 0}
	if len(runs) > 0 && rapid.IntRange(0, 3).Draw(t, "compress") != 0 {
		comp = runs[rapid.IntRange(0, len(runs)-1).Draw(t, "whichrun")]
		// optionally compress only part of the run
		if comp.l > 1 && rapid.IntRange(0, 3).Draw(t, "partial") == 0 {
			l := rapid.IntRange(1, comp.l).Draw(t, "partlen")
			off := rapid.IntRange(0, comp.l-l).Draw(t, "partoff")
			comp = run{comp.s + off, l}
		}
	}
	piece := func(x uint16) string {
		s := strconv.FormatUint(uint64(x), 16)
		if pad := rapid.IntRange(0, 4-len(s)).Draw(t, "pad"); pad > 0 {
			s = strings.Repeat("0", pad) + s
		}
		return mixHexCase(t, s)
	}
	tail := rapid.IntRange(0, 3).Draw(t, "v4tail") == 0 && !(comp.s >= 0 && comp.s+comp.l > 6)
	var head, rest []string
	end := 8
	if tail {
		end = 6
	}
	for i := 0; i < end; i++ {
		if comp.s >= 0 && i >= comp.s && i < comp.s+comp.l {
			continue
		}
		if comp.s >= 0 && i >= comp.s+comp.l {
			rest = append(rest, piece(v[i]))
		} else {
			head = append(head, piece(v[i]))
		}
	}
	var s string
	if comp.s >= 0 {
		s = strings.Join(head, ":") + "::" + strings.Join(rest, ":")
		if tail {
			if len(rest) > 0 {
				s += ":"
			}
			s += fmt.Sprintf("%d.%d.%d.%d", v[6]>>8, v[6]&0xff, v[7]>>8, v[7]&0xff)
		}
	} else {
		s = strings.Join(head, ":")
		if tail {
			s += ":" + fmt.Sprintf("%d.%d.%d.%d", v[6]>>8, v[6]&0xff, v[7]>>8, v[7]&0xff)
		}
	}
	return s
}

var c08Shapes = [][8]uint16{
	{0, 0, 0, 0, 0, 0, 0, 0}, {0, 0, 0, 0, 0, 0, 0, 1}, {1, 0, 0, 0, 0, 0, 0, 0}, {1, 0, 0, 2, 0, 0, 0, 3}, {1, 0, 0, 0, 2, 0, 0, 3}, {1, 0, 0, 2, 0, 0, 3, 4},
	{0, 0, 1, 0, 0, 1, 0, 0}, {1, 0, 1, 0, 1, 0, 1, 0}, {0, 1, 0, 1, 0, 1, 0, 1}, {1, 2, 3, 4, 5, 6, 7, 8}, {0xffff, 0xffff, 0xffff, 0xffff, 0xffff, 0xffff, 0xffff, 0xffff},
	{0, 0, 0, 0, 0, 0xffff, 0x0102, 0x0304}, {1, 0, 0, 0, 0, 0, 0, 0}, {0, 0, 1, 1, 0, 0, 0, 1}, {1, 1, 0, 0, 1, 0, 0, 0}, {0, 1, 1, 1, 1, 1, 1, 0}, {1, 0, 2, 0, 0, 3, 0, 0},
}

var c08Near = []string{"::", "::1", "1::", "1::8", "1:2:3:4:5:6:7:8", "1:2:3:4:5:6:7", "1:2:3:4:5:6:7:8:9", ":1", "1:", ":::", "::1::", "1::2::3", "1:::2", "12345::", "::12345", "::g", "g::", "::1.2.3.4", "::1.2.3", "::1.2.3.4.5",
	"::01.2.3.4", "::1.02.3.4", "::1.2.3.256", "::1.2.3.4:5", "1:2:3:4:5:6:1.2.3.4", "1:2:3:4:5:6:7:1.2.3.4", "1:2:3:4:5:1.2.3.4", "::1.2.3.", "::.1.2.3", "::1..2.3", "1.2.3.4", "::ffff:1.2.3.4", "::FFFF:1.2.3.4", "0:0:0:0:0:0:0:0",
	"0:0:0:0:0:0:0:0:", "::0:0:0:0:0:0:0", "::0:0:0:0:0:0:0:0", "1:2:3:4:5:6:7::", "::2:3:4:5:6:7:8", "1:2:3:4::5:6:7:8", "1:2:3::5:6:7:8", "1::8:", "", " ", "::%31", "%3A%3A1", "::1%", "::1%25eth0", "::x", "0x1::", "::-1", "::+1", "1:2:3:4:5:6:7:8.", "::1.2.3.4.", "::1.2.3.04",
	"::1.2.3.18446744073709551617", "::1.2.3.4294967297", "::1.2.3.65537", "::18446744073709551617.2.3.4", "1:2:3:4:5:6:1.2.3.18446744073709551620", "::1.2.3.00000000000000000000004", "::1.2.3.1e1",
	"::\uff41", "1:2:3:4:5:6:7:\uff26", "::\uff11", "::\u0663", "\uff11::", "::1.2.3.\uff14", "::\u0661.2.3.4", "::a\u0300", "::\u212a", "::\u0131", "\uff1a\uff1a1", "::1\uff0e2.3.4",
	"1:2:3:4:5:6:1.2.3.4.5", "1:2:3:4:5:6:1.2.3.4.", "1:2:3:4:5:6:1.2.3.4:5", "1:2:3:4:5:6:1.2.3.4:", "1:2:3:4:5:6:7:8:", "1:2:3:4:5:6:7:8.", "1:2:3:4:5:6:7:8.9", "1:2:3:4:5:6:7:8:9:a", "1:2:3:4:5:6:255.255.255.255.255", "1:2:3:4:5:6:7:1.2", "::1.2.3.4.5.6.7.8", "1:2:3:4:5:6:7:8::9",
	"::00000", "::0000", "0::0", "0:0::0:0", "::1\t", "::a:b:c:d:e:f:1", "a:b:c:d:e:f::1.2.3.4", "::a.2.3.4", "::1.a.3.4", "1:2:3:4:5:6:7:8::", "::1.2", "::255.255.255.255", "::256.1.1.1", "::1.2.3.4.5.6"}

func Gen08(t *rapid.T) Case08 {
	var c Case08
	c.Scheme = gen.Pick(t, "scheme", []string{"http", "foo", "file", "wss", "sc"})
	if c.Scheme == "sc" {
		c.Scheme = "foo"
	}
	switch rapid.IntRange(0, 5).Draw(t, "via") {
	case 0:
		c.Via = "sethost"
	case 1:
		c.Via = "sethostname"
	default:
		c.Via = "parse"
	}
	if c.Scheme != "file" && rapid.IntRange(0, 3).Draw(t, "port") == 0 {
		c.Port = ":8080"
	}
	var inner string
	switch rapid.IntRange(0, 2).Draw(t, "gen") {
	case 0: // value-first
		var v [8]uint16
		if rapid.IntRange(0, 2).Draw(t, "shape") == 0 {
			v = c08Shapes[rapid.IntRange(0, len(c08Shapes)-1).Draw(t, "whichshape")]
			for i := range v {
				if v[i] != 0 && v[i] < 16 && rapid.IntRange(0, 1).Draw(t, "rnd") == 0 {
					v[i] = uint16(rapid.IntRange(1, 0xffff).Draw(t, "piece"))
				}
			}
		} else {
			for i := range v {
				if rapid.IntRange(0, 1).Draw(t, "zero") == 0 {
					v[i] = 0
				} else {
					v[i] = uint16(rapid.IntRange(1, 0xffff).Draw(t, "piece"))
				}
			}
		}
		inner = renderIPv6(t, v)
		c.Value = v[:]
		c.Text = B("[" + inner + "]")
		return c
	case 1: // text-first
		if rapid.IntRange(0, 1).Draw(t, "tkind") == 0 {
			inner = gen.Pick(t, "near", c08Near)
		} else {
			n := rapid.IntRange(0, 20).Draw(t, "len")
			alphabet := append([]string{":", ":", ":", ":", "0", "0", "1", "1", "a", "A", "f", "F", ".", ".", "9", "%", "g", "x", "\uff41", "\uff26", "\uff11", "\u0663", "18446744073709551617", "4294967297", "256"}, gen.LowByteAliases[:12]...)
			var sb strings.Builder
			for i := 0; i < n; i++ {
				sb.WriteString(alphabet[rapid.IntRange(0, len(alphabet)-1).Draw(t, "ch")])
			}
			inner = sb.String()
		}
	default: // mutation of a valid spelling
		var v [8]uint16
		for i := range v {
			if rapid.IntRange(0, 1).Draw(t, "zero") == 1 {
				v[i] = uint16(rapid.IntRange(1, 0xffff).Draw(t, "piece"))
			}
		}
		inner = renderIPv6(t, v)
		pos := rapid.IntRange(0, len(inner)).Draw(t, "pos")
		if rapid.IntRange(0, 2).Draw(t, "atEnd") == 0 {
			pos = len(inner) // appended at the very end: one piece / part too many, trailing separators
		}
		ins := gen.Pick(t, "ins", append([]string{":", "::", "0", "00000", "g", ".", ".1", "1.2.3.4", "%", "]", "[", "ffff:", ":0", ".5", ":9", ":1.2.3.4", ".255.255", "::1", "\uff41", "\uff11", "\u0663", "18446744073709551616", "4294967296", "0000000000000000000000"}, gen.LowByteAliases...))
		if rapid.IntRange(0, 3).Draw(t, "replaceDigit") == 0 && len(inner) > 0 {
			// replace one character by an alias instead of inserting
			p := rapid.IntRange(0, len(inner)-1).Draw(t, "rpos")
			inner = inner[:p] + gen.Pick(t, "alias", gen.LowByteAliases) + inner[p+1:]
			pos = 0
			ins = ""
		}
		if rapid.IntRange(0, 2).Draw(t, "del") == 0 && pos < len(inner) {
			inner = inner[:pos] + inner[pos+1:]
		} else {
			inner = inner[:pos] + ins + inner[pos:]
		}
	}
	// bracket arrangement
	switch rapid.IntRange(0, 11).Draw(t, "brackets") {
	case 0:
		c.Text = B("[[" + inner + "]]")
	case 1:
		c.Text = B("[" + inner + "]]")
	case 2:
		c.Text = B("[[" + inner + "]")
	case 3:
		c.Text = B("[" + inner)
	case 4:
		c.Text = B("[" + inner + "]x")
	case 5:
		c.Text = B("[" + inner + "][")
	default:
		c.Text = B("[" + inner + "]")
	}
	return c
}

var P08 = core.Register(core.Prop[Case08]{
	ID: "C08",
	Rule: "bracketed host texts, three generators: value-first (eight pieces with biased zero patterns rendered in a random valid spelling: leading zeros, hex case, '::' on any zero run or part of it or nowhere, optional dotted-decimal tail), text-first (near-miss table and random strings over ':' hex digits '.' '%' 'g' 'x'), mutation of a valid spelling (insert/delete one token); bracket arrangements [T] [[T]] [T]] [[T] [T [T]x [T][; special, non-special and file schemes, with and without port, through Parse, SetHost and SetHostname; " +
		"oracle: accepted exactly when the text is '[' + an address by the standard's IPv6 parser + ']'; Hostname equals an independently written canonical serializer of the parsed value; for value-first cases the canonical text of the drawn value and the value re-derived by expanding the output; reparsing the output is the identity; " +
		"non-trivial = the text contains '::' or a dotted tail or at least 6 pieces; distinct by hash of the case",
	Gen:   Gen08,
	Check: Check08,
})

// Shapes08 enumerates all 256 zero / non-zero patterns of the eight pieces (the serializer's
// compression choice, completely): returns the number checked and the first failure.
func Shapes08() (int, string) {
	n := 0
	for pat := 0; pat < 256; pat++ {
		var v [8]uint16
		for i := 0; i < 8; i++ {
			if pat&(1<<uint(i)) != 0 {
				v[i] = uint16(0x10 + i)
			}
		}
		var parts []string
		for _, x := range v {
			parts = append(parts, strconv.FormatUint(uint64(x), 16))
		}
		full := "[" + strings.Join(parts, ":") + "]"
		for _, scheme := range []string{"http", "foo"} {
			got, ok, note := observeHost(scheme, "parse", full)
			n++
			if !ok {
				return n, fmt.Sprintf("%s://%s/ rejected: %s", scheme, full, note)
			}
			if want := "[" + canonicalIPv6(v) + "]"; got != want {
				return n, fmt.Sprintf("%s://%s/: Hostname() %q, canonical form is %q", scheme, full, got, want)
			}
			if want := "[" + spec.SerializeIPv6(v) + "]"; got != want {
				return n, fmt.Sprintf("%s://%s/: Hostname() %q, the model's serializer gives %q", scheme, full, got, want)
			}
		}
	}
	return n, ""
}

var P08s = core.Register(core.Prop[Enum]{
	ID:   "C08.shapes",
	Rule: "all 256 zero / non-zero patterns of the eight pieces, written without compression, in a special and a non-special URL: the serializer's choice of the run to compress is enumerated completely (exhaustive)",
	Gen:  func(t *rapid.T) Enum { return Enum{} },
	Check: func(_ Enum, r *core.Rec) {
		if _, msg := Shapes08(); msg != "" {
			r.Failf("%s", msg)
		}
	},
})
