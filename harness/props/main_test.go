package props

import (
	"fmt"
	"os"
	"path/filepath"
	"strings"
	"testing"
	"time"

	"verif/harness/core"
)

func TestMain(m *testing.M) {
	// every check publishes its current case; a case that does not return within the limit is written
	// out as a suspected hang (confirmed by the driver in a fresh process) instead of blocking the shard
	// until the test deadline. C14 cases are slow under the race detector, hence the generous limit.
	if os.Getenv("VERIF_OUT") != "" {
		core.StartWatchdog(30 * time.Second)
	}
	code := m.Run()
	core.Flush(true)
	os.Exit(code)
}

// TestReplay re-runs saved cases ($VERIF_REPLAY, a path list) through their check functions,
// bypassing rapid. Output protocol (parsed by the driver), one or more lines per file:
// REPLAY <path> FAIL <msg> | KNOWN <id> <msg> | PASS | ERROR <msg>.
func TestReplay(t *testing.T) {
	list := os.Getenv("VERIF_REPLAY")
	if list == "" {
		t.Skip("VERIF_REPLAY not set")
	}
	limit := 120 * time.Second
	if v := os.Getenv("VERIF_REPLAY_TIMEOUT"); v != "" {
		if d, err := time.ParseDuration(v); err == nil {
			limit = d
		}
	}
	for _, path := range filepath.SplitList(list) {
		type result struct {
			rec *core.Rec
			err error
		}
		ch := make(chan result, 1)
		go func() {
			rec, _, err := core.Replay(path)
			ch <- result{rec, err}
		}()
		var rec *core.Rec
		var err error
		select {
		case res := <-ch:
			rec, err = res.rec, res.err
		case <-time.After(limit):
			fmt.Printf("REPLAY %s FAIL the case did not return within %v (hang)\n", path, limit)
			continue
		}
		switch {
		case err != nil:
			fmt.Printf("REPLAY %s ERROR %v\n", path, err)
		case rec.Failed():
			fmt.Printf("REPLAY %s FAIL %s\n", path, strings.ReplaceAll(rec.Message(), "\n", " | "))
		case len(rec.KnownHits()) > 0:
			for _, id := range core.SortedKeys(rec.KnownHits()) {
				fmt.Printf("REPLAY %s KNOWN %s %s\n", path, id, strings.ReplaceAll(rec.KnownMessage(id), "\n", " | "))
			}
		default:
			fmt.Printf("REPLAY %s PASS\n", path)
		}
	}
}

// TestModelSelfCheck runs the reference model over the harness's pinned WPT vectors.
func TestModelSelfCheck(t *testing.T) {
	n, bad := Model.SelfCheck()
	fmt.Printf("MODEL-SELFCHECK decisive=%d bad=%d\n", n, len(bad))
	for _, b := range bad {
		fmt.Printf("MODEL-SELFCHECK-BAD %s\n", b)
	}
	if len(bad) > 0 {
		t.Fatalf("reference model disagrees with %d pinned WPT vectors", len(bad))
	}
}
