package props

import (
	"fmt"
	"strconv"
	"strings"

	"github.com/nlnwa/whatwg-url/url"
	"pgregory.net/rapid"

	"verif/harness/core"
	"verif/harness/spec"
)

// C04 — every reachable URL is a well-formed URL record with coherent getters.

var defaultPorts = map[string]string{"ftp": "21", "file": "", "http": "80", "https": "443", "ws": "80", "wss": "443"}

func isSpecialScheme(s string) bool { _, ok := defaultPorts[s]; return ok }

func containsSetMember(s string, set spec.Set) (rune, bool) {
	for _, r := range s {
		if set(r) {
			return r, true
		}
	}
	return 0, false
}

// wellFormed evaluates the structural invariants of the statement on the getters of u; "" if all hold.
// exercised receives labels of the clauses that were exercisable on this state.
func wellFormed(u *url.Url, exercised func(string)) string {
	href := u.Href(false)
	proto := u.Protocol()
	if !strings.HasSuffix(proto, ":") {
		return fmt.Sprintf("Protocol() %q does not end in ':'", proto)
	}
	scheme := proto[:len(proto)-1]
	if scheme == "" || !(scheme[0] >= 'a' && scheme[0] <= 'z') {
		return fmt.Sprintf("scheme %q does not start with a lowercase ASCII letter", scheme)
	}
	for i := 0; i < len(scheme); i++ {
		c := scheme[i]
		if !(c >= 'a' && c <= 'z' || c >= '0' && c <= '9' || c == '+' || c == '-' || c == '.') {
			return fmt.Sprintf("scheme %q contains %q", scheme, c)
		}
	}
	special := isSpecialScheme(scheme)
	user, pass, host, hostname, port, pathname := u.Username(), u.Password(), u.Host(), u.Hostname(), u.Port(), u.Pathname()
	search, hash := u.Search(), u.Hash()

	// --- composition -----------------------------------------------------------------------------
	userinfo := ""
	if user != "" || pass != "" {
		userinfo = user
		if pass != "" {
			userinfo += ":" + pass
		}
		userinfo += "@"
	}
	tails := []string{}
	for _, s := range altDelim(search, "?") {
		for _, h := range altDelim(hash, "#") {
			tails = append(tails, s+h)
		}
	}
	withAuthority := proto + "//" + userinfo + host + pathname
	guard := ""
	if strings.HasPrefix(pathname, "//") {
		guard = "/."
	}
	withoutAuthority := proto + guard + pathname
	hasAuth := false
	matched := false
	for _, t := range tails {
		if href == withAuthority+t {
			matched, hasAuth = true, true
		}
	}
	if !matched && host == "" && userinfo == "" {
		for _, t := range tails {
			if href == withoutAuthority+t {
				matched = true
			}
		}
	}
	if !matched {
		return fmt.Sprintf("Href %q is not the composition of the getters (protocol %q userinfo %q host %q pathname %q search %q hash %q)", href, proto, userinfo, host, pathname, search, hash)
	}
	if guard != "" && !hasAuth {
		exercised("guard:/.")
	}
	// Host == Hostname [":" Port]
	wantHost := hostname
	if port != "" {
		wantHost += ":" + port
	}
	if host != wantHost {
		return fmt.Sprintf("Host() %q is not Hostname() %q plus optional ':' Port() %q", host, hostname, port)
	}
	// Href(true) is Href(false) without the fragment
	h1 := u.Href(true)
	frag := u.Fragment()
	if frag != "" || hash != "" {
		if "#"+frag != hash {
			return fmt.Sprintf("Hash() %q is not '#' + Fragment() %q", hash, frag)
		}
		if href != h1+"#"+frag {
			return fmt.Sprintf("Href(false) %q is not Href(true) %q + '#' + fragment %q", href, h1, frag)
		}
		exercised("fragment")
	} else if href != h1 && href != h1+"#" {
		return fmt.Sprintf("Href(false) %q is not Href(true) %q plus an empty fragment", href, h1)
	}
	if strings.Contains(h1, "#") {
		return fmt.Sprintf("Href(true) %q contains '#'", h1)
	}
	if s := u.String(); s != href {
		return fmt.Sprintf("String() %q differs from Href(false) %q", s, href)
	}

	// --- structure ---------------------------------------------------------------------------------
	opaque := !hasAuth && !strings.HasPrefix(pathname, "/")
	if special {
		if !hasAuth {
			return fmt.Sprintf("special URL %q has no host", href)
		}
		if hostname == "" && scheme != "file" {
			return fmt.Sprintf("special non-file URL %q has an empty host", href)
		}
		if !strings.HasPrefix(pathname, "/") {
			return fmt.Sprintf("special URL %q has pathname %q not starting with '/'", href, pathname)
		}
	}
	if hasAuth && pathname != "" && !strings.HasPrefix(pathname, "/") {
		return fmt.Sprintf("URL %q with a host has pathname %q not starting with '/'", href, pathname)
	}
	if u.OpaquePath() {
		exercised("opaque-path")
		if hasAuth || hostname != "" || special {
			return fmt.Sprintf("URL %q reports an opaque path but has a host or a special scheme", href)
		}
	}
	if userinfo != "" || port != "" {
		exercised("credentials-or-port")
		if hostname == "" {
			return fmt.Sprintf("URL %q has credentials or a port but an empty or null host", href)
		}
		if scheme == "file" {
			return fmt.Sprintf("file URL %q has credentials or a port", href)
		}
	}
	if port != "" {
		n, err := strconv.Atoi(port)
		if err != nil || n < 0 || n > 65535 || strconv.Itoa(n) != port {
			return fmt.Sprintf("Port() %q is not a canonical decimal in 0..65535", port)
		}
		if dp, ok := defaultPorts[scheme]; ok && dp == port {
			return fmt.Sprintf("Port() %q is the default port of %q", port, scheme)
		}
		exercised("non-default-port")
	}

	// --- code points -------------------------------------------------------------------------------
	for i := 0; i < len(href); i++ {
		c := href[i]
		if c < 0x20 || c > 0x7E {
			return fmt.Sprintf("Href %q contains the non-printable or non-ASCII byte 0x%02X", href, c)
		}
		if c == ' ' && !opaque {
			return fmt.Sprintf("Href %q contains a space although the path is not opaque", href)
		}
	}
	if opaque && strings.Contains(pathname, " ") {
		exercised("opaque-path-with-space")
		if rest := href[len(proto):]; !strings.HasPrefix(rest, pathname) {
			return fmt.Sprintf("Href %q does not carry the opaque path %q after the scheme", href, pathname)
		}
		if strings.Contains(href[len(proto)+len(pathname):], " ") {
			return fmt.Sprintf("Href %q contains a space outside the opaque path", href)
		}
	}
	if r, bad := containsSetMember(user, spec.SetUserinfo); bad {
		return fmt.Sprintf("Username() %q contains %q of the userinfo percent-encode set", user, r)
	}
	if r, bad := containsSetMember(pass, spec.SetUserinfo); bad {
		return fmt.Sprintf("Password() %q contains %q of the userinfo percent-encode set", pass, r)
	}
	if opaque {
		if r, bad := containsSetMember(pathname, spec.SetC0Control); bad {
			return fmt.Sprintf("opaque path %q contains %q of the C0 control percent-encode set", pathname, r)
		}
	} else if r, bad := containsSetMember(pathname, spec.SetPath); bad {
		return fmt.Sprintf("Pathname() %q contains %q of the path percent-encode set", pathname, r)
	}
	qset := spec.Set(spec.SetQuery)
	if special {
		qset = spec.SetSpecialQuery
	}
	if r, bad := containsSetMember(u.Query(), qset); bad {
		return fmt.Sprintf("Query() %q contains %q of its percent-encode set", u.Query(), r)
	}
	if search != "" && search != "?"+u.Query() {
		return fmt.Sprintf("Search() %q is not '?' + Query() %q", search, u.Query())
	}
	if r, bad := containsSetMember(frag, spec.SetFragment); bad {
		return fmt.Sprintf("Fragment() %q contains %q of the fragment percent-encode set", frag, r)
	}
	// host
	switch {
	case hostname == "":
	case hostname[0] == '[':
		exercised("host:ipv6")
		if !strings.HasSuffix(hostname, "]") {
			return fmt.Sprintf("host %q starts with '[' but does not end with ']'", hostname)
		}
		a, ok := spec.ParseIPv6(hostname[1 : len(hostname)-1])
		if !ok {
			return fmt.Sprintf("bracketed host %q is not an IPv6 address", hostname)
		}
		if canon := "[" + spec.SerializeIPv6(a) + "]"; canon != hostname {
			return fmt.Sprintf("IPv6 host %q is not in canonical form %q", hostname, canon)
		}
	case special:
		exercised("host:domain-or-ipv4")
		for _, r := range hostname {
			if r > 0x7E || spec.IsForbiddenDomainCP(r) {
				return fmt.Sprintf("domain host %q contains the forbidden domain code point %q", hostname, r)
			}
			if r >= 'A' && r <= 'Z' {
				return fmt.Sprintf("domain host %q contains an upper-case letter", hostname)
			}
		}
	default:
		exercised("host:opaque")
		for _, r := range hostname {
			if spec.IsForbiddenHostCP(r) {
				return fmt.Sprintf("opaque host %q contains the forbidden host code point %q", hostname, r)
			}
		}
		if r, bad := containsSetMember(hostname, spec.SetC0Control); bad {
			return fmt.Sprintf("opaque host %q contains %q of the C0 control percent-encode set", hostname, r)
		}
	}
	return ""
}

func altDelim(v, delim string) []string {
	if v == "" {
		return []string{"", delim} // an empty-but-present query or fragment is not visible through the getter
	}
	return []string{v}
}

func Check04(c CaseHist, r *core.Rec) {
	iu, err := implStart(c)
	if err != nil || iu == nil {
		r.Vacuous()
		return
	}
	ex := func(l string) { r.Class("exercised:" + l) }
	if msg := wellFormed(iu, ex); msg != "" {
		r.Failf("after parsing %s: %s", histString(c, -1), msg)
		return
	}
	for i, op := range c.Ops {
		before := ObsOf(iu)
		switch op.Kind {
		case "set":
			ApplySetter(iu, op.Setter, valueFor(iu, op))
			r.Class("op:set-" + spec.SetterNames[op.Setter])
		case "resolve":
			v, err := iu.Parse(string(op.Value))
			if err != nil || v == nil {
				r.Class("op:resolve-failed")
				continue
			}
			iu = v
			r.Class("op:resolve")
		case "clone":
			// a Clone is a reachable URL too; the history continues on it
			iu = iu.Clone()
			r.Class("op:clone")
		default:
			continue
		}
		if ObsOf(iu) != before {
			r.NT()
		}
		if msg := wellFormed(iu, ex); msg != "" {
			r.Failf("after %s: %s", histString(c, i), msg)
			return
		}
	}
}

func Gen04(t *rapid.T) CaseHist {
	return genHistory(t, histOpts{maxOps: 10, start: "pair", resolve: true, clone: true})
}

var P04 = core.Register(core.Prop[CaseHist]{
	ID: "C04",
	Rule: "a start URL ((input, base) pairs as in C01 for a third of the cases, else WPT hrefs / grammar / extreme starts) followed by 0..10 steps (nine setters, resolution of a generated reference against the current URL, continuing on a Clone of the URL); " +
		"oracle: a validity predicate written from the statement (scheme syntax; special ⇒ host, non-opaque '/' path; opaque path ⇒ no host; credentials/port ⇒ non-empty host, not file; canonical non-default port; printable ASCII; no member of a component's percent-encode set or of the forbidden host/domain sets; canonical IPv6) plus the composition of Href from the getters with the '/.' guard, Host = Hostname[:Port], Href(true) = Href(false) without fragment, evaluated after every step; " +
		"non-trivial = some step after the initial parse changed a getter; distinct by hash of the history",
	Gen:   Gen04,
	Check: Check04,
})
