package props

import (
	"os"
	"strconv"
	"strings"
	"testing"

	"verif/harness/core"
	"verif/harness/spec"
)

// Bounded-exhaustive sub-checks ("small scope"): every string of up to maxLen atoms over a small
// alphabet of the tokens the code branches on, enumerated completely and split over the shards.
// They complement the random generators: a conjunction of two or three specific tokens that random
// draws may never line up is certain to be tried here. The same case types and check functions are
// used, so a failure is an ordinary replay file.

func shardInfo() (shard, shards int, tier string) {
	shard, _ = strconv.Atoi(os.Getenv("VERIF_SHARD"))
	shards, _ = strconv.Atoi(os.Getenv("VERIF_SHARDS"))
	if shards <= 0 {
		shards = 1
	}
	tier = os.Getenv("VERIF_TIER_NAME")
	if tier == "" {
		tier = "quick"
	}
	return
}

// enumStrings calls fn for every concatenation of 0..maxLen atoms whose index falls into this shard;
// fn returns false to stop. Returns the number of strings visited by this shard.
func enumStrings(atoms []string, maxLen, shard, shards int, fn func(s string) bool) int64 {
	var n, idx int64
	var rec func(prefix string, depth int) bool
	rec = func(prefix string, depth int) bool {
		if idx%int64(shards) == int64(shard) {
			n++
			if !fn(prefix) {
				return false
			}
		}
		idx++
		if depth == maxLen {
			return true
		}
		for _, a := range atoms {
			if !rec(prefix+a, depth+1) {
				return false
			}
		}
		return true
	}
	rec("", 0)
	return n
}

func runEnum[C any](t *testing.T, id string, p core.Prop[C], atoms []string, maxLen int, mk func(s string) []C) {
	shard, shards, _ := shardInfo()
	failed := false
	enumStrings(atoms, maxLen, shard, shards, func(s string) bool {
		for _, c := range mk(s) {
			r := &core.Rec{}
			core.Watch(p.ID, c)
			core.SafeCheck(p, c, r)
			core.Unwatch()
			if core.Account(p.ID, c, r) {
				failed = true
				t.Errorf("VIOLATION %s (enumeration %s): %s", p.ID, id, r.Message())
				return false
			}
		}
		return true
	})
	if !failed {
		core.Extra("enumeration:"+id, map[string]interface{}{"atoms": strings.Join(atoms, " "), "max_atoms": maxLen, "complete": true})
	}
}

var enum01Atoms = []string{"a", ":", "/", "\\", "?", "#", "@", ".", "%2e", "[", "]", "1", " ", "|", "C", "file"}
var enum01Bases = []struct {
	has  bool
	base string
}{{false, ""}, {true, "http://h/p/q?x#y"}, {true, "file:///C:/d/e"}, {true, "foo://h/p"}, {true, "foo:/p"}, {true, "foo:o"}, {true, "file://h/d"}, {true, "a://u:p@h:1/x/y"}}

func enumLen(quick, thorough int) int {
	if _, _, tier := shardInfo(); tier == "thorough" {
		return thorough
	}
	return quick
}

func Enum01(t *testing.T) {
	runEnum(t, "C01", P01, enum01Atoms, enumLen(3, 5), func(s string) []Case01 {
		out := make([]Case01, 0, len(enum01Bases))
		for _, b := range enum01Bases {
			out = append(out, Case01{Input: B(s), Base: B(b.base), HasBase: b.has})
		}
		return out
	})
}

var enum05Atoms = []string{"a", ":", "/", "\\", "?", "#", "@", ".", "%", "[", "]", "1", " ", "|", "C", "file", "80", "h", "::"}
var enum05Starts = []string{"http://u:p@h:81/p?q#f", "http://h/", "https://h:444/", "file:///C:/x", "file://h/x", "file:///", "foo://h/p", "foo://u@h:1/p", "foo:/p", "foo:/.//p", "foo:o", "foo:o ?q", "foo://", "ws://1.2.3.4/", "http://[::1]/", "a:/", "a:b  #f"}

func Enum05(t *testing.T) {
	runEnum(t, "C05", P05, enum05Atoms, enumLen(2, 3), func(s string) []CaseHist {
		var out []CaseHist
		for _, st := range enum05Starts {
			for w := 0; w < spec.NumSetters; w++ {
				out = append(out, CaseHist{Input: B(st), Ops: []Op{{Kind: "set", Setter: w, Value: B(s)}}})
			}
		}
		return out
	})
}

var enum07Atoms = []string{"0", "1", "8", "9", "x", "X", "a", "f", "g", ".", "+", "-", "256", "%30"}

func Enum07(t *testing.T) {
	runEnum(t, "C07", P07, enum07Atoms, enumLen(4, 6), func(s string) []Case07 {
		if s == "" {
			return nil
		}
		return []Case07{{Host: B(s), Scheme: "http", Via: "parse"}, {Host: B(s), Scheme: "file", Via: "sethost"}, {Host: B(s), Scheme: "foo", Via: "parse"}}
	})
}

var enum08Atoms = []string{":", "::", "0", "1", "ffff", ".", "1.2.3.4", "g", "00000", "]", "%"}

func Enum08(t *testing.T) {
	runEnum(t, "C08", P08, enum08Atoms, enumLen(4, 6), func(s string) []Case08 {
		return []Case08{{Text: B("[" + s + "]"), Scheme: "http", Via: "parse"}, {Text: B("[" + s + "]"), Scheme: "foo", Via: "sethost", Port: ":8080"}}
	})
}

var enum11Atoms = []string{"a", "b", "=", "&", "+", "%", "%26", "%3D", "%2B", "%41", " ", "#", "amp;", ";"}

func Enum11(t *testing.T) {
	runEnum(t, "C11", P11, enum11Atoms, enumLen(4, 6), func(s string) []Case11 {
		return []Case11{{Mode: "parse", Query: B(s)}}
	})
}

// ---- bounded-exhaustive setter histories -----------------------------------------------------------

// enumSetterValues: a small pool per setter of the values that take different branches.
var enumSetterValues = [spec.NumSetters][]string{
	/* protocol */ {"http", "https", "file", "foo", "ws:", ""},
	/* username */ {"", "u", "a:b@"},
	/* password */ {"", "p", "%"},
	/* host     */ {"", "h", "h:82", "h:80", "1.2.3.4", "[::1]:0", "a b", "C:", "localhost", "h:65536"},
	/* hostname */ {"", "x", "x:1", "0x7f.1", "[::2]", "C|"},
	/* port     */ {"", "0", "80", "443", "65535", "65536", "8x"},
	/* pathname */ {"", "/", "//x", "/.//y", "C|/z", "a b", "/..", "\\w", "/a/C:/../x"},
	/* search   */ {"", "?", "a=b", "a b"},
	/* hash     */ {"", "#", "f", "a b"},
}

var enumHistStarts = []string{"http://u:p@h:81/p?q#f", "http://h/", "https://h:80/", "file:///C:/x", "file://h/x", "foo://h/p", "foo://:p@h:1/p", "foo:/p", "foo:/.//p", "foo:o", "foo:o  ?q#f", "foo://", "ws://1.2.3.4:0/", "http://[::1]/", "a:/"}

// enumHistories calls fn for every history of exactly depth setter steps over enumSetterValues.
func enumHistories(depth, shard, shards int, fn func(ops []Op) bool) {
	type sv struct {
		w int
		v string
	}
	var steps []sv
	for w := 0; w < spec.NumSetters; w++ {
		for _, v := range enumSetterValues[w] {
			steps = append(steps, sv{w, v})
		}
		steps = append(steps, sv{w, "\x00{cur}"}) // the setter called with its getter's current value
	}
	var idx int64
	ops := make([]Op, depth)
	var rec func(d int) bool
	rec = func(d int) bool {
		if d == depth {
			idx++
			if (idx-1)%int64(shards) != int64(shard) {
				return true
			}
			return fn(ops)
		}
		for _, s := range steps {
			ops[d] = Op{Kind: "set", Setter: s.w, Value: B(s.v)}
			if s.v == "\x00{cur}" {
				ops[d] = Op{Kind: "set", Setter: s.w, Cur: true}
			}
			if !rec(d + 1) {
				return false
			}
		}
		return true
	}
	rec(0)
}

func runHistEnum(t *testing.T, p core.Prop[CaseHist], tail []Op) {
	shard, shards, _ := shardInfo()
	depth := enumLen(2, 3)
	failed := false
	enumHistories(depth, shard, shards, func(ops []Op) bool {
		for _, st := range enumHistStarts {
			c := CaseHist{Input: B(st), Ops: append(append([]Op{}, ops...), tail...)}
			r := &core.Rec{}
			core.Watch(p.ID, c)
			core.SafeCheck(p, c, r)
			core.Unwatch()
			if core.Account(p.ID, c, r) {
				failed = true
				t.Errorf("VIOLATION %s (history enumeration): %s", p.ID, r.Message())
				return false
			}
		}
		return true
	})
	if !failed {
		core.Extra("enumeration:"+p.ID+"-histories", map[string]interface{}{"starts": len(enumHistStarts), "steps": depth, "complete": true})
	}
}

func EnumHist03(t *testing.T) { runHistEnum(t, P03, nil) }
func EnumHist04(t *testing.T) { runHistEnum(t, P04, []Op{{Kind: "resolve", Value: "../x?y#z"}}) }
func EnumHist05(t *testing.T) { runHistEnum(t, P05, nil) }
func EnumHist19(t *testing.T) {
	runHistEnum(t, P19, []Op{{Kind: "clone"}, {Kind: "resolve", Value: "/r"}})
}

// EnumHist01: every 2-step (quick) / 3-step (thorough) setter history followed by each of a few
// references, through the lock-step resolution check.
func EnumHist01(t *testing.T) {
	shard, shards, _ := shardInfo()
	depth := enumLen(2, 3)
	failed := false
	tails := []string{"x", "..", "/z", "?q", "C|/w", ""}
	if depth == 3 {
		tails = []string{"x", "..", "?q"}
	}
	enumHistories(depth, shard, shards, func(ops []Op) bool {
		for _, st := range enumHistStarts {
			for _, ref := range tails {
				c := CaseHist{Input: B(st), Ops: append(append([]Op{}, ops...), Op{Kind: "resolve", Value: B(ref)})}
				r := &core.Rec{}
				core.Watch(P01h.ID, c)
				core.SafeCheck(P01h, c, r)
				core.Unwatch()
				if core.Account(P01h.ID, c, r) {
					failed = true
					t.Errorf("VIOLATION %s (history enumeration): %s", P01h.ID, r.Message())
					return false
				}
			}
		}
		return true
	})
	if !failed {
		core.Extra("enumeration:C01-histories", map[string]interface{}{"starts": len(enumHistStarts), "steps": depth, "references": len(tails), "complete": true})
	}
}
