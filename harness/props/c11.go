package props

import (
	"fmt"
	"sort"
	"strings"

	"github.com/nlnwa/whatwg-url/url"
	"pgregory.net/rapid"

	"verif/harness/core"
	"verif/harness/gen"
	"verif/harness/spec"
)

// C11 — SearchParams is an ordered multimap with a faithful form-urlencoded codec.

type Pair struct {
	Name  B `json:"name"`
	Value B `json:"value"`
}

type SPOp struct {
	Op    string `json:"op"` // append delete set sort sortabs get getall has string
	Name  B      `json:"name,omitempty"`
	Value B      `json:"value,omitempty"`
}

func (o SPOp) String() string {
	switch o.Op {
	case "append", "set":
		return fmt.Sprintf("%s(%s,%s)", o.Op, quote(string(o.Name)), quote(string(o.Value)))
	case "delete", "get", "getall", "has":
		return fmt.Sprintf("%s(%s)", o.Op, quote(string(o.Name)))
	case "reinit":
		return fmt.Sprintf("SetSearch(%s)", quote(string(o.Value)))
	}
	return o.Op
}

type Case11 struct {
	Mode  string `json:"mode"`  // "ops", "parse", "roundtrip"
	Query B      `json:"query"` // initial query text (ops, parse)
	Ops   []SPOp `json:"ops,omitempty"`
	Pairs []Pair `json:"pairs,omitempty"` // roundtrip
}

// ---- list model -------------------------------------------------------------------------------------

type listModel []spec.Pair

func (l listModel) apply(o SPOp) listModel {
	n, v := string(o.Name), string(o.Value)
	switch o.Op {
	case "append":
		return append(l, spec.Pair{Name: n, Value: v})
	case "delete":
		var out listModel
		for _, p := range l {
			if p.Name != n {
				out = append(out, p)
			}
		}
		return out
	case "set":
		var out listModel
		done := false
		for _, p := range l {
			if p.Name == n {
				if done {
					continue
				}
				p.Value = v
				done = true
			}
			out = append(out, p)
		}
		if !done {
			out = append(out, spec.Pair{Name: n, Value: v})
		}
		return out
	case "iterate":
		// Iterate with a callback that edits every pair in place
		out := append(listModel(nil), l...)
		for i := range out {
			out[i].Value += "x"
		}
		return out
	case "sort":
		out := append(listModel(nil), l...)
		sort.SliceStable(out, func(i, j int) bool { return out[i].Name < out[j].Name })
		return out
	case "sortabs":
		out := append(listModel(nil), l...)
		sort.SliceStable(out, func(i, j int) bool { return out[i].Name+out[i].Value < out[j].Name+out[j].Value })
		return out
	}
	return l
}

// applyImplU is applyImpl plus the "reinit" operation, which needs the URL: SetSearch(value)
// re-initialises the same list object from a new query.
func applyImplU(u *url.Url, sp *url.SearchParams, o SPOp) {
	if o.Op == "reinit" {
		u.SetSearch(string(o.Value))
		return
	}
	applyImpl(sp, o)
}

func applyImpl(sp *url.SearchParams, o SPOp) {
	n, v := string(o.Name), string(o.Value)
	switch o.Op {
	case "append":
		sp.Append(n, v)
	case "delete":
		sp.Delete(n)
	case "set":
		sp.Set(n, v)
	case "sort":
		sp.Sort()
	case "sortabs":
		sp.SortAbsolute()
	case "iterate":
		sp.Iterate(func(p *url.NameValuePair) { p.Value += "x" })
	case "get":
		sp.Get(n)
	case "getall":
		sp.GetAll(n)
	case "has":
		sp.Has(n)
	case "string":
		_ = sp.String()
	}
}

// readList reads the whole ordered list through Iterate (used on twins only: Iterate writes back).
func readList(sp *url.SearchParams) []spec.Pair {
	var out []spec.Pair
	sp.Iterate(func(p *url.NameValuePair) { out = append(out, spec.Pair{Name: p.Name, Value: p.Value}) })
	return out
}

func pairsEqual(a, b []spec.Pair, collapse bool) bool {
	if len(a) != len(b) {
		return false
	}
	for i := range a {
		if collapse {
			if spec.CollapseFFFD(a[i].Name) != spec.CollapseFFFD(b[i].Name) || spec.CollapseFFFD(a[i].Value) != spec.CollapseFFFD(b[i].Value) {
				return false
			}
		} else if a[i] != b[i] {
			return false
		}
	}
	return true
}

func pairsString(l []spec.Pair) string {
	var parts []string
	for _, p := range l {
		parts = append(parts, "("+quote(p.Name)+","+quote(p.Value)+")")
	}
	return "[" + strings.Join(parts, " ") + "]"
}

// compareThroughGetters compares the list with the model through Get / GetAll / Has for every name in play.
// All GetAll results are taken first and judged afterwards, and they are handed to keep(): a result
// is a list of values of its own, which later calls on the SearchParams must not change.
func compareThroughGetters(sp *url.SearchParams, model listModel, names []string, keep func(name string, got []string)) string {
	all := make([][]string, len(names))
	for i, n := range names {
		all[i] = sp.GetAll(n)
	}
	for i, n := range names {
		var want []string
		for _, p := range model {
			if p.Name == n {
				want = append(want, p.Value)
			}
		}
		if got := sp.Has(n); got != (len(want) > 0) {
			return fmt.Sprintf("Has(%s) = %v, the list model has %d such pairs", quote(n), got, len(want))
		}
		first := ""
		if len(want) > 0 {
			first = want[0]
		}
		if got := sp.Get(n); got != first {
			return fmt.Sprintf("Get(%s) = %s, expected %s", quote(n), quote(got), quote(first))
		}
		got := all[i]
		if len(got) != len(want) {
			return fmt.Sprintf("GetAll(%s) has %d values, expected %d", quote(n), len(got), len(want))
		}
		for j := range got {
			if got[j] != want[j] {
				return fmt.Sprintf("GetAll(%s)[%d] = %s (read after the GetAll calls for the other names), expected %s", quote(n), j, quote(got[j]), quote(want[j]))
			}
		}
		if keep != nil {
			keep(n, got)
		}
	}
	return ""
}

// sortAmbiguous: the case mixes a supplementary-plane character with one in U+E000..U+FFFF in names
// (or name+value for sortabs): code point order (Go strings) and UTF-16 code unit order (the
// standard) differ only there (DESIGN §7.5); such sort cases are not judged.
func sortAmbiguous(l listModel) bool {
	if len(l) < 2 {
		return false // nothing to order
	}
	supp, high := false, false
	for _, p := range l {
		for _, r := range p.Name + p.Value {
			if r >= 0x10000 {
				supp = true
			} else if r >= 0xE000 {
				high = true
			}
		}
	}
	return supp && high
}

func validUTF8List(l []spec.Pair) bool {
	for _, p := range l {
		if !validStr(p.Name) || !validStr(p.Value) {
			return false
		}
	}
	return true
}

func equalStrings(a, b []string) bool {
	if len(a) != len(b) {
		return false
	}
	for i := range a {
		if a[i] != b[i] {
			return false
		}
	}
	return true
}

func quoteAll(l []string) string {
	var parts []string
	for _, s := range l {
		parts = append(parts, quote(s))
	}
	return "[" + strings.Join(parts, " ") + "]"
}

func validStr(s string) bool { return string([]rune(s)) == s && !strings.ContainsRune(s, 0xFFFD) }

// treeSerialize is the known-finding quirk (KF-C11-serializer): the list serialized the way the
// tree does it — space as '+', otherwise the URL query percent-encode set (so "% & = +" stay literal).
func treeSerialize(l []spec.Pair) string {
	var sb strings.Builder
	enc := func(s string) {
		for _, r := range s {
			if r == ' ' {
				sb.WriteByte('+')
			} else {
				sb.WriteString(spec.PercentEncodeRune(r, spec.SetQuery))
			}
		}
	}
	for i, p := range l {
		if i > 0 {
			sb.WriteByte('&')
		}
		enc(p.Name)
		sb.WriteByte('=')
		enc(p.Value)
	}
	return sb.String()
}

func hasCodecDelimiter(l []spec.Pair) bool {
	for _, p := range l {
		if strings.ContainsAny(p.Name, "%&=+") || strings.ContainsAny(p.Value, "%&=+") {
			return true
		}
	}
	return false
}

func Check11(c Case11, r *core.Rec) {
	r.Class("mode:" + c.Mode)
	switch c.Mode {
	case "ops":
		check11Ops(c, r)
	case "parse":
		check11Parse(c, r)
	case "roundtrip":
		check11RoundTrip(c, r)
	}
}

func initialList(q string) (*url.Url, listModel, bool) {
	u, err := url.Parse("http://h/?" + q)
	if err != nil || u == nil {
		return nil, nil, false
	}
	return u, listModel(spec.ParseURLEncoded(u.Query())), true
}

func check11Parse(c Case11, r *core.Rec) {
	q := string(c.Query)
	u, model, ok := initialList(q)
	if !ok {
		r.Vacuous()
		return
	}
	stored := u.Query()
	got := readList(u.SearchParams())
	if strings.ContainsAny(q, "&=+%") || !isPureASCII(q) {
		r.NT()
	}
	if !pairsEqual(got, model, true) {
		r.Failf("SearchParams of http://h/?%s (stored query %s) is %s, form-urlencoded parsing gives %s", quote(q), quote(stored), pairsString(got), pairsString(model))
		return
	}
	// and the same list through Get/GetAll/Has on a fresh handle (only for valid UTF-8 lists: exact)
	if validUTF8List(model) {
		u2, _, _ := initialList(q)
		var names []string
		for _, p := range model {
			names = append(names, p.Name)
		}
		if msg := compareThroughGetters(u2.SearchParams(), model, names, nil); msg != "" {
			r.Failf("SearchParams of http://h/?%s: %s", quote(q), msg)
		}
	}
}

func check11Ops(c Case11, r *core.Rec) {
	q := string(c.Query)
	u, model, ok := initialList(q)
	if !ok || !validUTF8List(model) {
		r.Vacuous()
		return
	}
	sp := u.SearchParams()
	names := map[string]bool{}
	for _, p := range model {
		names[p.Name] = true
	}
	type keptResult struct {
		name      string
		step      int
		got, copy []string
	}
	var kept []keptResult
	step := 0
	keep := func(name string, got []string) {
		if len(got) > 0 && len(kept) < 64 {
			kept = append(kept, keptResult{name, step, got, append([]string(nil), got...)})
		}
	}
	for i, o := range c.Ops {
		step = i + 1
		if o.Name != "" || o.Op == "append" || o.Op == "set" || o.Op == "delete" {
			names[string(o.Name)] = true
		}
		if o.Op == "delete" || o.Op == "set" || o.Op == "sort" || o.Op == "sortabs" || o.Op == "iterate" {
			cnt := 0
			for _, p := range model {
				if p.Name == string(o.Name) || o.Op == "sort" || o.Op == "sortabs" {
					cnt++
				}
			}
			if cnt >= 2 {
				r.NT()
			}
		}
		if (o.Op == "sort" || o.Op == "sortabs") && (sortAmbiguous(model) || !validUTF8List(model)) {
			// (names handed to the API as strings that are not valid UTF-8 have no order the statement
			// speaks of — by their bytes, or by the U+FFFD they are serialized as; not judged, like in C16)
			r.Class("sort-order-ambiguous")
			return
		}
		if strings.ContainsAny(string(o.Name)+string(o.Value), "&=+%# ") || !isPureASCII(string(o.Name)+string(o.Value)) {
			r.NT()
		}
		if o.Op == "reinit" {
			applyImplU(u, sp, o)
			model = listModel(spec.ParseURLEncoded(u.Query()))
			if !validUTF8List(model) {
				return
			}
			for _, p := range model {
				names[p.Name] = true
			}
		} else {
			model = model.apply(o)
			applyImpl(sp, o)
		}
		r.Class("op:" + o.Op)
		var ns []string
		for n := range names {
			ns = append(ns, n)
		}
		sort.Strings(ns)
		hist := func() string {
			var parts []string
			for _, oo := range c.Ops[:i+1] {
				parts = append(parts, oo.String())
			}
			return "http://h/?" + quote(q) + " ; " + strings.Join(parts, " ; ")
		}
		if msg := compareThroughGetters(sp, model, ns, keep); msg != "" {
			r.Failf("after %s: %s (list model %s)", hist(), msg, pairsString(model))
			return
		}
		// results of GetAll taken after earlier operations still hold what they held then
		for _, k := range kept {
			if !equalStrings(k.got, k.copy) {
				r.Failf("after %s: the slice GetAll(%s) returned after operation %d held %s then and holds %s now", hist(), quote(k.name), k.step, quoteAll(k.copy), quoteAll(k.got))
				return
			}
		}
		// whole ordered list on a twin built by replaying the same operations
		tu, _, _ := initialList(q)
		tsp := tu.SearchParams()
		for _, oo := range c.Ops[:i+1] {
			applyImplU(tu, tsp, oo)
		}
		if got := readList(tsp); !pairsEqual(got, model, false) {
			r.Failf("after %s: the list is %s, the list model gives %s", hist(), pairsString(got), pairsString(model))
			return
		}
	}
	r.Class(fmt.Sprintf("len:%d", min(len(model), 6)))
}

func check11RoundTrip(c Case11, r *core.Rec) {
	u, err := url.Parse("http://h/")
	if err != nil {
		r.Failf("http://h/ does not parse: %v", err)
		return
	}
	var list []spec.Pair
	for _, p := range c.Pairs {
		// the API takes scalar-value strings; invalid bytes are read as U+FFFD
		list = append(list, spec.Pair{Name: string([]rune(string(p.Name))), Value: string([]rune(string(p.Value)))})
	}
	sp := u.SearchParams()
	for _, p := range list {
		sp.Append(p.Name, p.Value)
	}
	if hasCodecDelimiter(list) || len(list) >= 2 {
		r.NT()
	}
	own := readList(mustTwin(list))
	if !pairsEqual(own, list, false) {
		r.Failf("appending %s gives the list %s", pairsString(list), pairsString(own))
		return
	}
	href := u.Href(false)
	v, err := url.Parse(href)
	if err != nil || v == nil {
		r.Failf("the URL %s built by appending %s does not parse: %v", quote(href), pairsString(list), err)
		return
	}
	got := readList(v.SearchParams())
	if pairsEqual(got, list, false) {
		return
	}
	// known finding: the serializer leaves "% & = +" literal; attributed only if the tree-style
	// serialization explains the whole result
	if hasCodecDelimiter(list) {
		if mu, ok := Model.Parse("http://h/?"+treeSerialize(list), nil); ok && mu.Query != nil {
			if pairsEqual(got, spec.ParseURLEncoded(*mu.Query), true) {
				r.Known("KF-C11-serializer", "appending %s serializes as %s, which parses back as %s", pairsString(list), quote(href), pairsString(got))
				return
			}
		}
	}
	r.Failf("appending %s serializes as %s, which parses back as %s", pairsString(list), quote(href), pairsString(got))
}

func mustTwin(list []spec.Pair) *url.SearchParams {
	u, _ := url.Parse("http://h/")
	sp := u.SearchParams()
	for _, p := range list {
		sp.Append(p.Name, p.Value)
	}
	return sp
}

// ---- generators ---------------------------------------------------------------------------------------

var c11Names = []string{"a", "b", "c", "d", "a", "b", "", "amp;a", "a&amp;b", "&amp;", "aa", "ab", "A", "a b", "a&b", "a=b", "a+b", "a%b", "%41", "%2B", "%26", "%", "#", "?", "é", "ü", "日本", "💩", "", "�", "'", "\"", "<", "a\x00", "~", "*", "-._", "[]", "%zz", "&", "=", "+", " "}
var c11Values = []string{"", "1", "2", "3", "x", "y", "1", "", "&amp;", "1&amp;amp;2", "amp;", "a b", "1+1", "1%2B1", "a&b", "a=b", "c=d=e", "%", "%25", "%41", "#f", "?", "é", "💩", "", "100%", " ", "+", "&", "=", "'", "\"<>", "\x7f", "%C3%A9", "%FF", "~!*()", "%E2%82"}
var c11QueryAtoms = []string{"&amp;", "&amp;amp;", "amp;", "&lt;", "&#38;", "a", "b", "c", "=", "=", "&", "&", "&&", "+", "%2B", "%26", "%3D", "%25", "%41", "%", "%4", "%zz", "%FF", "%E2%82", "%C3%A9", "%F0%9F%92%A9", "1", "2", " ", "é", "💩", "\xff", "#", "?", "'", "\"", "<", ";", "a=b", "a=1&a=2", "=x", "x=", "==", "&=&", "%00", "\x00", "+%20+"}

func genQuery(t *rapid.T) string {
	switch rapid.IntRange(0, 3).Draw(t, "qkind") {
	case 0:
		// rendered from pairs by the standard's serializer
		n := rapid.IntRange(0, 5).Draw(t, "npairs")
		var l []spec.Pair
		for i := 0; i < n; i++ {
			l = append(l, spec.Pair{Name: gen.Pick(t, "name", c11Names), Value: gen.Pick(t, "value", c11Values)})
		}
		return spec.SerializeURLEncoded(l)
	case 1:
		return gen.Soup(t, "query", 5)
	default:
		n := rapid.IntRange(0, 8).Draw(t, "natoms")
		var sb strings.Builder
		for i := 0; i < n; i++ {
			sb.WriteString(gen.Pick(t, "qatom", c11QueryAtoms))
		}
		return sb.String()
	}
}

func Gen11(t *rapid.T) Case11 {
	var c Case11
	switch rapid.IntRange(0, 3).Draw(t, "mode") {
	case 0, 1:
		c.Mode = "ops"
		c.Query = B(genQuery(t))
		n := rapid.IntRange(1, 12).Draw(t, "nops")
		ops := []string{"append", "append", "append", "delete", "delete", "set", "set", "sort", "sort", "sortabs", "get", "getall", "has", "string", "reinit", "iterate"}
		for i := 0; i < n; i++ {
			o := SPOp{Op: gen.Pick(t, "op", ops)}
			switch o.Op {
			case "reinit":
				o.Value = B(genQuery(t))
			case "append", "set":
				o.Name, o.Value = B(gen.Pick(t, "name", c11Names)), B(gen.Pick(t, "value", c11Values))
			case "delete", "get", "getall", "has":
				o.Name = B(gen.Pick(t, "name", c11Names))
			}
			c.Ops = append(c.Ops, o)
		}
	case 2:
		c.Mode = "parse"
		c.Query = B(genQuery(t))
	default:
		c.Mode = "roundtrip"
		n := rapid.IntRange(0, 5).Draw(t, "npairs")
		for i := 0; i < n; i++ {
			var p Pair
			if rapid.IntRange(0, 4).Draw(t, "arb") == 0 {
				p.Name, p.Value = B(gen.Any(t, "name")), B(gen.Any(t, "value"))
			} else {
				p.Name, p.Value = B(gen.Pick(t, "name", c11Names)), B(gen.Pick(t, "value", c11Values))
			}
			c.Pairs = append(c.Pairs, p)
		}
	}
	return c
}

var P11 = core.Register(core.Prop[Case11]{
	ID: "C11",
	Rule: "three modes: ops (an initial query, then 1..12 of append/delete/set/sort/sortabs/get/getall/has/string/re-initialisation of the same list object through SetSearch, with names and values from small colliding pools incl. delimiters '& = + % # space', escape look-alikes, non-ASCII, empty), parse (query text from the standard's serializer, token soup or query atoms incl. '&&', 'a=b=c', '+', truncated and invalid-UTF-8 escapes), roundtrip (0..5 pairs of pool or arbitrary strings appended to http://h/, the URL reparsed); " +
		"oracle: ops — a list model with the standard's list semantics, compared after every operation through Get/GetAll/Has for every name in play and through Iterate on a twin; parse — the reference application/x-www-form-urlencoded parser applied to the stored query (runs of U+FFFD collapsed); roundtrip — the appended list itself; " +
		"non-trivial = a name or value contains a delimiter, '%' or non-ASCII, or a delete/set/sort touches a name occurring at least twice, or the round-trip list has at least 2 pairs; distinct by hash of the case",
	Gen:   Gen11,
	Check: Check11,
})
