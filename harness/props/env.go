// Package props holds the property checks C01..C20: for each a JSON-serialisable case type, a pure
// check function, a rapid generator, and (in the _test files) the rapid property, the native fuzz
// target and the replay entry point.
package props

import (
	"fmt"

	"github.com/nlnwa/whatwg-url/url"

	"verif/harness/core"
	"verif/harness/spec"
)

type B = core.B

type toASCIIer interface {
	ToASCII(src string, beStrict bool) (string, error)
}

type decoder interface {
	DecodePercentEncoded(s string) string
}

// DefaultParser is a parser built with no options (the same as the package-level functions use).
var DefaultParser = url.NewParser()

func implToASCII(d string) (string, bool) {
	r, err := DefaultParser.(toASCIIer).ToASCII(d, false)
	return r, err == nil
}

// Model is the reference model with the IDNA mapping delegated to the implementation (DESIGN §3.2).
var Model = &spec.Env{ToASCII: implToASCII}

// ModelQ returns a model with exactly one quirk switched on.
func ModelQ(quirk string) *spec.Env {
	return &spec.Env{ToASCII: implToASCII, Quirks: map[string]bool{quirk: true}}
}

// ObsOf reads Href and the nine getters of the implementation's URL.
func ObsOf(u *url.Url) spec.Obs {
	return spec.Obs{u.Href(false), u.Protocol(), u.Username(), u.Password(), u.Host(), u.Hostname(), u.Port(), u.Pathname(), u.Search(), u.Hash()}
}

// DiffObs describes the first difference between two observations ("" if equal).
func DiffObs(got, want spec.Obs) string {
	for i := range got {
		if got[i] != want[i] {
			return fmt.Sprintf("%s: implementation %q, expected %q", spec.ObsNames[i], got[i], want[i])
		}
	}
	return ""
}

// ApplySetter calls setter number which on the implementation's URL.
func ApplySetter(u *url.Url, which int, v string) {
	switch which {
	case spec.SetterProtocol:
		u.SetProtocol(v)
	case spec.SetterUsername:
		u.SetUsername(v)
	case spec.SetterPassword:
		u.SetPassword(v)
	case spec.SetterHost:
		interfereHostValue(u, v)
		u.SetHost(v)
	case spec.SetterHostname:
		interfereHostValue(u, v)
		u.SetHostname(v)
	case spec.SetterPort:
		u.SetPort(v)
	case spec.SetterPathname:
		u.SetPathname(v)
	case spec.SetterSearch:
		u.SetSearch(v)
	case spec.SetterHash:
		u.SetHash(v)
	default:
		panic("bad setter")
	}
}

// interfereHostValue: just before a host setter the package-level parser parses the same host text
// under a scheme of the other class (domain vs opaque host). What a setter does must not depend on
// what was parsed before it (a memo of the last host keyed by its text alone).
func interfereHostValue(u *url.Url, v string) {
	other := "git://"
	if !u.IsSpecialScheme() {
		other = "http://"
	}
	_, _ = url.Parse(other + v + "/")
}

// outcome of one parse through an entry point
type parsed struct {
	u   *url.Url
	err error
}

func (p parsed) ok() bool { return p.err == nil && p.u != nil }
