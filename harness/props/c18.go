package props

import (
	"github.com/nlnwa/whatwg-url/url"
	"strings"

	"pgregory.net/rapid"

	"verif/harness/core"
)

// C18 — canonicalization maps equivalent spellings of a URL to the same string.

type Case18 struct {
	Profile ProfileSpec `json:"profile"`
	Web     WebURL      `json:"web"`
	A       Spelling    `json:"a"`
	B       Spelling    `json:"b"`
}

// variationKinds lists which kinds of variation distinguish a spelling from the plain one.
func variationKinds(sp Spelling, w WebURL, rich bool) []string {
	var k []string
	anyTrue := func(b []bool) bool {
		for _, x := range b {
			if x {
				return true
			}
		}
		return false
	}
	if anyTrue(sp.SchemeCase) || anyTrue(sp.HostCase) {
		k = append(k, "case")
	}
	if w.Port == "" && sp.PortStyle%3 != 0 {
		k = append(k, "port")
	}
	if rich {
		for _, d := range sp.Enc {
			if d > 0 {
				k = append(k, "encoding")
				break
			}
		}
	}
	if len(sp.Dots) > 0 {
		k = append(k, "dots")
	}
	if len(sp.TabNL) > 0 {
		k = append(k, "tabnl")
	}
	if sp.Lead != "" || sp.Trail != "" {
		k = append(k, "whitespace")
	}
	if rich && sp.EmptyFrag && !w.HasFrag {
		k = append(k, "empty-fragment")
	}
	return k
}

func Check18(c Case18, r *core.Rec) {
	if !c.Web.InGrammar() || c.Web.hasEmptyName() {
		r.Vacuous()
		return
	}
	p := c.Profile.parser()
	rich := c.Profile.decodes() // all variations; otherwise only what the standard itself normalises
	depth := 0
	if rich {
		depth = 16
	}
	// host characters: one level of escapes is decoded by the standard's host parser; nested levels
	// only by the two profiles that parse hosts laxly and then decode them repeatedly
	hostDepth := 0
	if rich {
		hostDepth = 1
		if c.Profile.experimental() {
			hostDepth = depth
		}
	}
	a := c.Web.RenderH(c.A, depth, hostDepth, rich, rich)
	b := c.Web.RenderH(c.B, depth, hostDepth, rich, rich)
	plain := c.Web.Render(Spelling{}, 0, false, false)
	r.Class("profile:" + c.Profile.Name)
	kinds := map[string]bool{}
	for _, k := range append(variationKinds(c.A, c.Web, rich), variationKinds(c.B, c.Web, rich)...) {
		kinds[k] = true
		r.Class("variation:" + k)
	}
	if a != b && len(kinds) >= 2 {
		r.NT()
	}
	canon := func(x string) (string, error) {
		interfereProfile(p, x)
		u, err := p.Parse(x)
		if err != nil || u == nil {
			return "", err
		}
		return u.String(), nil
	}
	ca, ea := canon(a)
	cb, eb := canon(b)
	cp, ep := canon(plain)
	if ea != nil || eb != nil || ep != nil {
		r.Failf("%s rejects a spelling of an ordinary web URL: %s err=%v ; %s err=%v ; %s err=%v", c.Profile, quote(a), ea, quote(b), eb, quote(plain), ep)
		return
	}
	if ca == cb && ca == cp {
		return
	}
	// KF-C18-empty-fragment: a decoding profile without remove-fragment keeps the '#' of an empty fragment
	if rich && !c.Profile.removesFragment() && !c.Web.HasFrag {
		strip := func(s string) string { return strings.TrimSuffix(s, "#") }
		if strip(ca) == strip(cb) && strip(ca) == strip(cp) {
			r.Known("KF-C18-empty-fragment", "%s: %s -> %s but %s -> %s", c.Profile, quote(a), quote(ca), quote(b), quote(cb))
			return
		}
	}
	// KF-C18-nested-dots: an inserted dot segment written with nested encoding (%252e) is not a dot
	// segment at parse time, so a literal ".." segment of the URL itself removes it instead of the
	// segment before it; decoding happens after the parser resolved the path. Attributed only if the
	// URL itself has a ".." segment, a spelling uses a nested dot, and the failure disappears when the
	// same spellings write their dots single-level.
	if rich && hasSeg(c.Web, "..") && (usesNestedDots(c.A) || usesNestedDots(c.B)) {
		a2, _ := canon(c.Web.RenderH(c.A, depth, hostDepth, false, rich))
		b2, _ := canon(c.Web.RenderH(c.B, depth, hostDepth, false, rich))
		if a2 == b2 && a2 == cp {
			r.Known("KF-C18-nested-dots", "%s: %s -> %s but %s -> %s", c.Profile, quote(a), quote(ca), quote(b), quote(cb))
			return
		}
		// both recorded findings at once: with single-level dots the spellings still differ, but only
		// by the '#' of an empty fragment that this profile keeps (attributed to both; both must be open)
		if !c.Profile.removesFragment() && !c.Web.HasFrag {
			strip := func(s string) string { return strings.TrimSuffix(s, "#") }
			if strip(a2) == strip(b2) && strip(a2) == strip(cp) {
				r.Known("KF-C18-nested-dots", "%s: %s -> %s but %s -> %s", c.Profile, quote(a), quote(ca), quote(b), quote(cb))
				r.Known("KF-C18-empty-fragment", "%s: %s -> %s but %s -> %s", c.Profile, quote(a), quote(ca), quote(b), quote(cb))
				return
			}
		}
	}
	r.Failf("%s: equivalent spellings canonicalize differently: %s -> %s ; %s -> %s ; plain %s -> %s", c.Profile, quote(a), quote(ca), quote(b), quote(cb), quote(plain), quote(cp))
}

func hasSeg(w WebURL, seg string) bool {
	for _, s := range w.Segs {
		if s == seg {
			return true
		}
	}
	return false
}

func usesNestedDots(sp Spelling) bool {
	for _, d := range sp.Dots {
		st := d.Style % len(dotStyles)
		if st < 0 {
			st = -st
		}
		if st == 3 {
			return true
		}
	}
	return false
}

func Gen18(t *rapid.T) Case18 {
	var c Case18
	switch rapid.IntRange(0, 9).Draw(t, "profile") {
	case 0, 1, 2:
		c.Profile = ProfileSpec{Name: "GoogleSafeBrowsing"}
	case 3, 4:
		c.Profile = ProfileSpec{Name: "Semantic"}
	case 5:
		c.Profile = ProfileSpec{Name: "WhatWg"}
	case 6:
		c.Profile = ProfileSpec{Name: "WhatWgSortQuery"}
	case 7:
		c.Profile = genComposed(t, true)
	default:
		c.Profile = genComposed(t, false)
	}
	c.Web = GenWebURL(t)
	for i := range c.Web.Params {
		if c.Web.Params[i].Name == "" {
			c.Web.Params[i].Name = "n"
		}
	}
	rich := c.Profile.decodes()
	c.A = GenSpelling(t, "a", rich)
	c.B = GenSpelling(t, "b", rich)
	return c
}

var P18 = core.Register(core.Prop[Case18]{
	ID: "C18",
	Rule: "an abstract ordinary web URL (grammar of C17, decoded) rendered in two independently drawn spellings A and B; for GoogleSafeBrowsing, Semantic and composed profiles with repeated percent-decoding all listed variations (scheme/host case, per-character optional or nested percent-encoding with random hex case — also of the characters of a domain host (one level for composed profiles, whose strict host parser rejects a '%' left after decoding once; nested for the two experimental profiles) —, explicit default port or empty port, inserted '.' and 'x/..' segments also spelled %2e / %2E / nested %252e, tabs/newlines, surrounding C0/space, bare '#'); for WhatWg, WhatWgSortQuery and decoding-free compositions only the subset the standard normalises (case, default port, literal and single-level %2e dot segments, tabs/newlines, surrounding whitespace); " +
		"oracle: p.Parse(A).String() == p.Parse(B).String() == p.Parse(plain rendering).String(); " +
		"non-trivial = A and B differ textually and at least 2 kinds of variation were applied; distinct by hash of the case",
	Gen:   Gen18,
	Check: Check18,
})

// interfereProfile has the same profile canonicalize the byte-identical text under a scheme of the
// other class (and a host setter on that value) just before the call under test: what a profile
// returns must not depend on what it was asked before (caches keyed without everything the result
// depends on). The predefined profiles are shared values, so this is how they are used anyway.
func interfereProfile(p url.Parser, x string) {
	i := strings.IndexByte(x, ':')
	if i < 0 {
		return
	}
	if u, err := p.Parse("git" + x[i:]); err == nil && u != nil {
		u.SetHostname(u.Hostname())
	}
}
