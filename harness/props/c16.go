package props

import (
	"fmt"
	"sort"
	"strconv"
	"strings"
	"unicode/utf8"

	"github.com/nlnwa/whatwg-url/canonicalizer"
	"github.com/nlnwa/whatwg-url/errors"
	"github.com/nlnwa/whatwg-url/url"
	"pgregory.net/rapid"

	"verif/harness/core"
	"verif/harness/gen"
	"verif/harness/spec"
)

// C16 — every option has its documented effect and is otherwise neutral.

// Opt16 is one option of a generated configuration.
type Opt16 struct {
	Name string `json:"name"`
	// replaced percent-encode sets: which bytes are added to / removed from the named default set
	Add   []uint `json:"add,omitempty"`
	Clear []uint `json:"clear,omitempty"`
	Str   string `json:"str,omitempty"` // default-scheme value, added special scheme name
	Port  string `json:"port,omitempty"`
	Sort  int    `json:"sort,omitempty"`
	Pad   int    `json:"pad,omitempty"` // special-schemes: that many further schemes in the table (it is the caller's map, of any size)
}

type Case16 struct {
	Clause  string  `json:"clause"`
	Input   B       `json:"input"`
	Base    B       `json:"base"`
	HasBase bool    `json:"has_base"`
	Opts    []Opt16 `json:"opts"`
	Ops     []Op    `json:"ops,omitempty"`   // neutral clause: setter calls applied after the parse, under both parsers
	Pairs   []Pair  `json:"pairs,omitempty"` // skip-equals clause
	Char    uint    `json:"char,omitempty"`  // encode-set effect clause: the code point placed in the components
}

// ---- building parsers from options -------------------------------------------------------------------

var encSetDefaults = map[string]*url.PercentEncodeSet{
	"path-set": url.PathPercentEncodeSet, "query-set": url.QueryPercentEncodeSet, "special-query-set": url.SpecialQueryPercentEncodeSet,
	"fragment-set": url.FragmentPercentEncodeSet, "special-fragment-set": url.FragmentPercentEncodeSet,
}

func (o Opt16) set() *url.PercentEncodeSet {
	s := encSetDefaults[o.Name]
	if len(o.Add) > 0 {
		s = s.Set(o.Add...)
	}
	if len(o.Clear) > 0 {
		s = s.Clear(o.Clear...)
	}
	return s
}

func withAddedScheme(name, port string, pad int) map[string]string {
	m := map[string]string{"ftp": "21", "file": "", "http": "80", "https": "443", "ws": "80", "wss": "443"}
	for i := 0; i < pad; i++ {
		m[fmt.Sprintf("%c%d", 'a'+i%26, i)] = strconv.Itoa(1000 + i)
	}
	m[name] = port
	return m
}

func (o Opt16) option() url.ParserOption {
	switch o.Name {
	case "report":
		return url.WithReportValidationErrors()
	case "accept-invalid":
		return url.WithAcceptInvalidCodepoints()
	case "single-percent":
		return url.WithPercentEncodeSinglePercentSign()
	case "collapse":
		return url.WithCollapseConsecutiveSlashes()
	case "skip-drive":
		return url.WithSkipWindowsDriveLetterNormalization()
	case "special-schemes":
		return url.WithSpecialSchemes(withAddedScheme(o.Str, o.Port, o.Pad))
	case "lax-host":
		return url.WithLaxHostParsing()
	case "skip-equals":
		return url.WithSkipEqualsForEmptySearchParamsValue()
	case "allow-path-nonbase":
		return url.WithAllowSettingPathForNonBaseUrl()
	case "path-set":
		return url.WithPathPercentEncodeSet(o.set())
	case "query-set":
		return url.WithQueryPercentEncodeSet(o.set())
	case "special-query-set":
		return url.WithSpecialQueryPercentEncodeSet(o.set())
	case "fragment-set":
		return url.WithFragmentPathPercentEncodeSet(o.set())
	case "special-fragment-set":
		return url.WithSpecialFragmentPathPercentEncodeSet(o.set())
	case "remove-user-info":
		return canonicalizer.WithRemoveUserInfo()
	case "remove-port":
		return canonicalizer.WithRemovePort()
	case "remove-fragment":
		return canonicalizer.WithRemoveFragment()
	case "sort-query":
		if o.Sort == 2 {
			return canonicalizer.WithSortQuery(canonicalizer.SortParameter)
		}
		if o.Sort == 1 {
			return canonicalizer.WithSortQuery(canonicalizer.SortKeys)
		}
		// other values of the option's integer type, written the way a caller outside the package can
		v := canonicalizer.NoSort
		for i := 0; i < o.Sort; i++ {
			v++
		}
		for i := 0; i > o.Sort; i-- {
			v--
		}
		return canonicalizer.WithSortQuery(v)
	case "default-scheme":
		return canonicalizer.WithDefaultScheme(o.Str)
	case "repeated-decoding":
		return canonicalizer.WithRepeatedPercentDecoding()
	}
	panic("unknown option " + o.Name)
}

// newProfile and newParser build from an option list the way a caller holding a list does: more than
// once from the same slice. Every profile built from the list must behave the same; the checks get
// the second one.
func newProfile(opts []url.ParserOption) url.Parser {
	_ = canonicalizer.New(opts...)
	return canonicalizer.New(opts...)
}

func newParser(opts []url.ParserOption) url.Parser {
	_ = url.NewParser(opts...)
	return url.NewParser(opts...)
}

func buildOptions(opts []Opt16) []url.ParserOption {
	var out []url.ParserOption
	for _, o := range opts {
		out = append(out, o.option())
	}
	return out
}

func optNames(opts []Opt16) string {
	var n []string
	for _, o := range opts {
		s := o.Name
		if len(o.Add)+len(o.Clear) > 0 {
			s += fmt.Sprintf("(+%q -%q)", bytesOf(o.Add), bytesOf(o.Clear))
		}
		if o.Str != "" {
			s += "(" + o.Str + ":" + o.Port + ")"
		}
		if o.Name == "sort-query" {
			s += fmt.Sprintf("(%d)", o.Sort)
		}
		n = append(n, s)
	}
	return "[" + strings.Join(n, " ") + "]"
}

func bytesOf(u []uint) string {
	b := make([]byte, len(u))
	for i, x := range u {
		b[i] = byte(x)
	}
	return string(b)
}

func parse16(p url.Parser, c Case16) parsed {
	// (what a parser or profile returns must not depend on what it was asked before: the same text
	// under a scheme of the other class goes first, as in C17 / C18)
	interfereProfile(p, string(c.Input))
	if c.HasBase {
		interfereProfile(p, string(c.Base))
		u, err := p.ParseRef(string(c.Base), string(c.Input))
		return parsed{u, err}
	}
	u, err := p.Parse(string(c.Input))
	return parsed{u, err}
}

func sameOutcome(got, want parsed) string {
	if got.err == nil && got.u == nil {
		return "returned (nil, nil)"
	}
	if got.ok() != want.ok() {
		return fmt.Sprintf("ok=%v (%v), expected ok=%v (%v)", got.ok(), got.err, want.ok(), want.err)
	}
	if got.ok() {
		return DiffObs(ObsOf(got.u), ObsOf(want.u))
	}
	return ""
}

// ---- triggers (what an option is allowed to react to, decided on the input text) -----------------------

func removeTabNL(s string) string {
	return strings.NewReplacer("\t", "", "\n", "", "\r", "").Replace(s)
}

func hasLonePercentAsWritten(s string) bool {
	for i := 0; i < len(s); i++ {
		if s[i] == '%' && !(i+2 < len(s) && isHexByte(s[i+1]) && isHexByte(s[i+2])) {
			return true
		}
	}
	return false
}

func hasLonePercent(s string) bool {
	s = removeTabNL(s)
	for i := 0; i < len(s); i++ {
		if s[i] == '%' && !(i+2 < len(s) && isHexByte(s[i+1]) && isHexByte(s[i+2])) {
			return true
		}
	}
	return false
}

// hasConsecutiveSlashes: after trimming and tab/newline removal and dropping a leading "scheme:", the
// text up to the first '?' or '#' contains two adjacent slash characters ('/' or '\') other than one
// pair at the very start (the pair that introduces an authority). Deliberately conservative: three
// slashes after the scheme count as consecutive even where the standard ignores them.
func hasConsecutiveSlashes(s string) bool {
	s = preprocess(s)
	if sc := gen.SchemeOf(s); sc != "" {
		s = s[len(sc)+1:]
	}
	if i := strings.IndexAny(s, "?#"); i >= 0 {
		s = s[:i]
	}
	isSlash := func(c byte) bool { return c == '/' || c == '\\' }
	if len(s) >= 2 && isSlash(s[0]) && isSlash(s[1]) {
		s = s[2:]
		if len(s) > 0 && isSlash(s[0]) {
			return true
		}
	}
	for i := 0; i+1 < len(s); i++ {
		if isSlash(s[i]) && isSlash(s[i+1]) {
			return true
		}
	}
	return false
}

func (o Opt16) delta() []byte {
	var d []byte
	def := encSetDefaults[o.Name]
	s := o.set()
	for c := 0; c < 0x80; c++ {
		if def.RuneShouldBeEncoded(rune(c)) != s.RuneShouldBeEncoded(rune(c)) {
			d = append(d, byte(c))
		}
	}
	return d
}

// triggered tells whether option o may legitimately change the result for this case.
func triggered(o Opt16, c Case16, d0 parsed) bool {
	texts := []string{string(c.Input)}
	if c.HasBase {
		texts = append(texts, string(c.Base))
	}
	// setter values are inputs too
	for _, op := range c.Ops {
		texts = append(texts, string(op.Value))
		if o.Name == "lax-host" && (op.Setter == spec.SetterHost || op.Setter == spec.SetterHostname) {
			return true // whether the default parser rejects a host value is not decidable from the text: skip
		}
	}
	any := func(f func(string) bool) bool {
		for _, t := range texts {
			if f(t) {
				return true
			}
		}
		return false
	}
	switch o.Name {
	case "report", "skip-equals", "allow-path-nonbase":
		return false
	case "accept-invalid":
		return any(func(s string) bool { return !utf8.ValidString(s) })
	case "single-percent":
		// with and without the removal of tabs and newlines: the parser removes them from its input,
		// the credential setters do not ("%A\tA" holds an escape for the one, a lone '%' for the other)
		return any(func(s string) bool { return hasLonePercent(s) || hasLonePercentAsWritten(s) })
	case "collapse":
		for _, op := range c.Ops {
			// in a setter value there is no authority-introducing pair to exempt
			v := removeTabNL(string(op.Value))
			for i := 0; i+1 < len(v); i++ {
				if (v[i] == '/' || v[i] == '\\') && (v[i+1] == '/' || v[i+1] == '\\') {
					return true
				}
			}
		}
		return any(hasConsecutiveSlashes)
	case "skip-drive":
		return any(func(s string) bool { return strings.Contains(s, "|") })
	case "special-schemes":
		return any(func(s string) bool {
			return gen.SchemeOf(preprocess(s)) == o.Str || (len(c.Ops) > 0 && strings.Contains(strings.ToLower(removeTabNL(s)), o.Str))
		})
	case "lax-host":
		return !d0.ok()
	case "path-set", "query-set", "special-query-set", "fragment-set", "special-fragment-set":
		d := string(o.delta())
		return any(func(s string) bool { return strings.ContainsAny(s, d) })
	}
	return true
}

// ---- clauses ---------------------------------------------------------------------------------------------

func Check16(c Case16, r *core.Rec) {
	r.Class("clause:" + c.Clause)
	switch c.Clause {
	case "no-options":
		check16NoOptions(c, r)
	case "remove":
		check16Remove(c, r)
	case "sort":
		check16Sort(c, r)
	case "default-scheme":
		check16DefaultScheme(c, r)
	case "neutral":
		check16Neutral(c, r)
	case "collapse-effect":
		check16CollapseEffect(c, r)
	case "encode-set-effect":
		check16EncodeSetEffect(c, r)
	case "skip-equals":
		check16SkipEquals(c, r)
	case "special-scheme-effect":
		check16SpecialSchemeEffect(c, r)
	case "canon-combo":
		check16CanonCombo(c, r)
	case "documented-effect":
		check16DocumentedEffect(c, r)
	}
}

// check16DocumentedEffect: the two parser options whose effect the statement does not spell out but
// their doc comments do (the property's title is "every option has its documented effect").
//   - WithPercentEncodeSinglePercentSign "percent encodes a '%' which is not followed by two
//     hexadecimal digits": in the path / opaque path of the result every '%' starts a valid escape,
//     and nothing else differs from the default parser's result once those are re-escaped there too.
//   - WithSkipWindowsDriveLetterNormalization "skips conversion of 'C|' to 'C:'": a file URL whose
//     first path segment is written X| keeps it, and equals the default result with that ':' as '|'.
//
// singlePercentEncoder: the option's rule in the string encoder (what the credential setters use): the
// output is the default parser's, except that every '%' of the input that is not followed by two hex
// digits is written %25 — so no lone '%' is left. Judged on the whole input and on its last path piece
// (a string in which the '%' may be the only character any set would touch).
func singlePercentEncoder(c Case16, r *core.Rec) bool {
	po := url.NewParser(c.Opts[0].option())
	whole := string(c.Input)
	piece := whole[strings.LastIndexAny(whole, "/\\@:")+1:]
	for _, in := range []string{whole, piece} {
		for _, ns := range []namedSet{NamedSets[5], NamedSets[4], NamedSets[0]} {
			var want strings.Builder
			rs, last := []rune(in), 0
			for i, x := range rs {
				if x == '%' && !(i+2 < len(rs) && rs[i+1] < 0x80 && rs[i+2] < 0x80 && isHexByte(byte(rs[i+1])) && isHexByte(byte(rs[i+2]))) {
					want.WriteString(DefaultParser.PercentEncodeString(string(rs[last:i]), ns.Set))
					want.WriteString("%25")
					last = i + 1
				}
			}
			want.WriteString(DefaultParser.PercentEncodeString(string(rs[last:]), ns.Set))
			if out := po.PercentEncodeString(in, ns.Set); out != want.String() {
				r.Failf("%s: PercentEncodeString(%s, %s) under the option gives %q, expected %q (the default encoder's output with each '%%' that is not followed by two hex digits written %%25)", where16(c), quote(in), ns.Name, out, want.String())
				return false
			}
		}
		if hu, err := po.Parse("http://h/"); err == nil && hu != nil {
			hu.SetUsername(in)
			hu.SetPassword(in)
			for _, v := range []string{hu.Username(), hu.Password()} {
				if hasLonePercent(v) {
					r.Failf("%s: after SetUsername / SetPassword(%s) on http://h/ the credentials %q still have a '%%' that is not followed by two hex digits", where16(c), quote(in), v)
					return false
				}
			}
			if hasLonePercent(in) {
				r.NT()
			}
		}
	}
	return true
}

func check16DocumentedEffect(c Case16, r *core.Rec) {
	if len(c.Opts) != 1 {
		r.Vacuous()
		return
	}
	if c.Opts[0].Name == "single-percent" && !singlePercentEncoder(c, r) {
		return
	}
	d0 := parse16(DefaultParser, c)
	got := parse16(url.NewParser(c.Opts[0].option()), c)
	if got.err == nil && got.u == nil {
		r.Failf("%s: returned (nil, nil)", where16(c))
		return
	}
	if got.ok() != d0.ok() {
		r.Failf("%s: ok=%v (%v) but the default parser ok=%v", where16(c), got.ok(), got.err, d0.ok())
		return
	}
	if !d0.ok() {
		r.Vacuous()
		return
	}
	switch c.Opts[0].Name {
	case "single-percent":
		pn := got.u.Pathname()
		for i := 0; i < len(pn); i++ {
			if pn[i] == '%' && !(i+2 < len(pn) && isHexByte(pn[i+1]) && isHexByte(pn[i+2])) {
				r.Failf("%s: the path %q still has a '%%' that is not followed by two hex digits", where16(c), pn)
				return
			}
		}
		if hasLonePercent(d0.u.Pathname()) {
			r.NT()
		}
		// everything but the path is as the default parser has it
		g, w := ObsOf(got.u), ObsOf(d0.u)
		for _, i := range []int{1, 2, 3, 4, 5, 6, 8, 9} {
			if g[i] != w[i] {
				r.Failf("%s: %s is %q, the default parser gives %q", where16(c), obsName(i), g[i], w[i])
				return
			}
		}
	case "skip-drive":
		want := ObsOf(d0.u)
		pn := d0.u.Pathname()
		in := preprocess(string(c.Input))
		// only judged for the plain shape file: + slashes + X| + (end | / | ? | #) without base
		// (dot segments after the drive letter are not judged: whether ".." may pop a drive letter that was
		// left un-normalised is not documented for this option)
		if low := strings.ToLower(in); strings.Contains(low, "/.") || strings.Contains(low, "%2e") || strings.Contains(low, "\\.") {
			r.Vacuous()
			return
		}
		if c.HasBase || d0.u.Protocol() != "file:" || len(pn) < 3 || pn[0] != '/' || pn[2] != ':' || !isDriveInput(in, pn[1]) {
			r.Vacuous()
			return
		}
		r.NT()
		kept := "/" + string(pn[1]) + "|" + pn[3:]
		want[7] = kept
		want[0] = strings.Replace(want[0], pn, kept, 1)
		if d := DiffObs(ObsOf(got.u), want); d != "" {
			r.Failf("%s: expected the default result with the drive letter left as written: %s", where16(c), d)
		}
	}
}

// isDriveInput: the input is file: + slashes + <letter>| + (end or / ? #), the letter being l.
func isDriveInput(in string, l byte) bool {
	low := strings.ToLower(in)
	if !strings.HasPrefix(low, "file:") {
		return false
	}
	rest := strings.TrimLeft(in[5:], "/\\")
	if len(in[5:])-len(rest) != 3 && len(in[5:])-len(rest) != 1 {
		return false // file:///X| or file:/X| only (two slashes would make X| a host candidate)
	}
	if len(rest) < 2 || rest[0] != l || rest[1] != '|' {
		return false
	}
	return len(rest) == 2 || strings.ContainsRune("/?#", rune(rest[2]))
}

var comboOption = map[string]bool{"remove-user-info": true, "remove-port": true, "remove-fragment": true, "sort-query": true, "default-scheme": true}

// check16CanonCombo: any subset of remove-user-info / remove-port / remove-fragment / sort-query /
// default-scheme together. Expected: the default parser's result (with the default-scheme rule), the
// real setters applied for the remove-* options, and for sort-query the sorted decoded list with
// everything else untouched.
func check16CanonCombo(c Case16, r *core.Rec) {
	// parser options may be interleaved with the canonicalizer options; they stay in the list only
	// if their trigger is absent from the input, so that by the conservative-extension clause they
	// change nothing
	var eff []Opt16
	var d0 parsed
	for _, o := range c.Opts {
		if !comboOption[o.Name] {
			if d0.u == nil && d0.err == nil {
				d0 = parse16(DefaultParser, c)
			}
			if triggered(o, c, d0) {
				continue
			}
			r.Class("combo:mixed-with-parser-options")
		}
		eff = append(eff, o)
	}
	c.Opts = eff
	p := newProfile(buildOptions(c.Opts))
	got := parse16(p, c)
	if got.err == nil && got.u == nil {
		r.Failf("%s: returned (nil, nil)", where16(c))
		return
	}
	scheme, mode := "", 0
	for _, o := range c.Opts {
		switch o.Name {
		case "default-scheme":
			scheme = o.Str
		case "sort-query":
			mode = o.Sort
		}
	}
	want := parse16(DefaultParser, c)
	if !want.ok() && !c.HasBase && scheme != "" {
		var tr spec.Trace
		if _, mok := Model.ParseT(string(c.Input), nil, &tr); !mok && tr.NoSchemeFailure() {
			u, err := url.Parse(scheme + "://" + string(c.Input))
			want = parsed{u, err}
			r.Class("combo:default-scheme-applied")
		}
	}
	if got.ok() != want.ok() {
		r.Failf("%s: profile ok=%v (%v), expected ok=%v (%v)", where16(c), got.ok(), got.err, want.ok(), want.err)
		return
	}
	if !want.ok() {
		r.Vacuous()
		return
	}
	if hasOpt(c.Opts, "remove-port") {
		want.u.SetPort("")
	}
	if hasOpt(c.Opts, "remove-user-info") {
		want.u.SetUsername("")
		want.u.SetPassword("")
	}
	if hasOpt(c.Opts, "remove-fragment") {
		want.u.SetHash("")
	}
	if len(c.Opts) >= 2 {
		r.NT()
	}
	g, w := ObsOf(got.u), ObsOf(want.u)
	if mode == 0 {
		if g != w {
			r.Failf("%s: differs from the default parser's result with the setters applied: %s", where16(c), DiffObs(g, w))
		}
		return
	}
	for _, i := range []int{1, 2, 3, 4, 5, 6, 7, 9} {
		if g[i] != w[i] {
			r.Failf("%s: %s is %q, expected %q", where16(c), obsName(i), g[i], w[i])
			return
		}
	}
	if _, _, _, has := splitQuery(got.u.Href(false)); has != func() bool { _, _, _, h := splitQuery(want.u.Href(false)); return h }() {
		r.Failf("%s: sorting changed whether the URL has a query at all: %s vs %s", where16(c), got.u.Href(false), want.u.Href(false))
		return
	}
	before := collapseList(spec.ParseURLEncoded(want.u.Query()))
	if sortAmbiguous(before) || !validUTF8List(before) {
		return
	}
	sorted := before.apply(SPOp{Op: "sort"})
	if mode == 2 {
		sorted = before.apply(SPOp{Op: "sortabs"})
	}
	after := spec.ParseURLEncoded(got.u.Query())
	if pairsEqual(after, sorted, true) {
		return
	}
	if hasCodecDelimiter(sorted) && got.u.Query() == treeSerialize(sorted) {
		r.Known("KF-C16-serializer", "%s: the sorted list %s is serialized as %s, which decodes as %s", where16(c), pairsString(sorted), quote(got.u.Query()), pairsString(after))
		return
	}
	r.Failf("%s: the decoded parameters are %s, expected %s", where16(c), pairsString(after), pairsString(sorted))
}

func where16(c Case16) string {
	s := quote(string(c.Input))
	if c.HasBase {
		s += " base=" + quote(string(c.Base))
	}
	return s + " options " + optNames(c.Opts)
}

func check16NoOptions(c Case16, r *core.Rec) {
	var want parsed
	if c.HasBase {
		u, err := url.ParseRef(string(c.Base), string(c.Input))
		want = parsed{u, err}
	} else {
		u, err := url.Parse(string(c.Input))
		want = parsed{u, err}
	}
	if d := sameOutcome(parse16(canonicalizer.New(), c), want); d != "" {
		r.Failf("%s: canonicalizer.New() differs from the package functions: %s", where16(c), d)
		return
	}
	if d := sameOutcome(parse16(url.NewParser(), c), want); d != "" {
		r.Failf("%s: url.NewParser() differs from the package functions: %s", where16(c), d)
		return
	}
	if d := sameOutcome(parse16(canonicalizer.WhatWg, c), want); d != "" {
		r.Failf("%s: canonicalizer.WhatWg differs from the package functions: %s", where16(c), d)
		return
	}
	if want.ok() {
		r.NT()
	}
}

func hasOpt(opts []Opt16, name string) bool {
	for _, o := range opts {
		if o.Name == name {
			return true
		}
	}
	return false
}

func check16Remove(c Case16, r *core.Rec) {
	p := newProfile(buildOptions(c.Opts))
	got := parse16(p, c)
	d0 := parse16(DefaultParser, c)
	if got.err == nil && got.u == nil {
		r.Failf("%s: returned (nil, nil)", where16(c))
		return
	}
	if got.ok() != d0.ok() {
		r.Failf("%s: profile ok=%v (%v) but the underlying parser ok=%v (%v)", where16(c), got.ok(), got.err, d0.ok(), d0.err)
		return
	}
	if !d0.ok() {
		r.Vacuous()
		return
	}
	// expected: the standard's parse followed by the standard's setter steps
	var tr spec.Trace
	mu, mok, _ := modelParse(Model, Case01{Input: c.Input, Base: c.Base, HasBase: c.HasBase}, &tr)
	if !mok || mu.Obs() != ObsOf(d0.u) {
		r.Vacuous() // C01's business
		return
	}
	applies := false
	if hasOpt(c.Opts, "remove-port") {
		applies = applies || mu.Port != nil
		Model.SetPort(mu, "")
		d0.u.SetPort("")
	}
	if hasOpt(c.Opts, "remove-user-info") {
		applies = applies || mu.Username != "" || mu.Password != ""
		Model.SetUsername(mu, "")
		Model.SetPassword(mu, "")
		d0.u.SetUsername("")
		d0.u.SetPassword("")
	}
	if hasOpt(c.Opts, "remove-fragment") {
		applies = applies || mu.Fragment != nil
		Model.SetHash(mu, "")
		d0.u.SetHash("")
	}
	if applies {
		r.NT()
	}
	if d := DiffObs(ObsOf(got.u), mu.Obs()); d != "" {
		r.Failf("%s: differs from the standard's parse followed by the standard's setter steps: %s", where16(c), d)
		return
	}
	if d := DiffObs(ObsOf(got.u), ObsOf(d0.u)); d != "" {
		r.Failf("%s: differs from the default parser's result with the real setters applied: %s", where16(c), d)
		return
	}
	href := got.u.Href(false)
	if hasOpt(c.Opts, "remove-user-info") && (got.u.Username() != "" || got.u.Password() != "") {
		r.Failf("%s: credentials remain: %s", where16(c), href)
	}
	if hasOpt(c.Opts, "remove-port") && got.u.Port() != "" {
		r.Failf("%s: a port remains: %s", where16(c), href)
	}
	if hasOpt(c.Opts, "remove-fragment") && (got.u.Hash() != "" || strings.Contains(href, "#")) {
		r.Failf("%s: a fragment remains: %s", where16(c), href)
	}
}

func check16Sort(c Case16, r *core.Rec) {
	p := newProfile(buildOptions(c.Opts))
	got := parse16(p, c)
	d0 := parse16(DefaultParser, c)
	if got.err == nil && got.u == nil {
		r.Failf("%s: returned (nil, nil)", where16(c))
		return
	}
	if got.ok() != d0.ok() {
		r.Failf("%s: profile ok=%v (%v) but the underlying parser ok=%v (%v)", where16(c), got.ok(), got.err, d0.ok(), d0.err)
		return
	}
	if !d0.ok() {
		r.Vacuous()
		return
	}
	mode := 0
	for _, o := range c.Opts {
		if o.Name == "sort-query" {
			mode = o.Sort
		}
	}
	// everything except the query is untouched
	g, w := ObsOf(got.u), ObsOf(d0.u)
	for _, i := range []int{1, 2, 3, 4, 5, 6, 7, 9} {
		if g[i] != w[i] {
			r.Failf("%s: sorting changed %s: %q -> %q", where16(c), obsName(i), w[i], g[i])
			return
		}
	}
	// sorting reorders parameters: it neither adds nor removes the query itself
	if _, _, _, has := splitQuery(got.u.Href(false)); has != func() bool { _, _, _, h := splitQuery(d0.u.Href(false)); return h }() {
		r.Failf("%s: sorting changed whether the URL has a query at all: %s vs %s", where16(c), got.u.Href(false), d0.u.Href(false))
		return
	}
	before := collapseList(spec.ParseURLEncoded(d0.u.Query()))
	if sortAmbiguous(before) || (mode != 0 && !validUTF8List(before)) {
		// the relative order of names that contain invalid bytes (raw bytes vs their U+FFFD reading)
		// is not judged (DESIGN §7)
		r.Class("sort:not-judged")
		return
	}
	want := before
	switch mode {
	case 1:
		want = before.apply(SPOp{Op: "sort"})
	case 2:
		want = before.apply(SPOp{Op: "sortabs"})
	}
	if len(before) >= 2 && mode != 0 {
		r.NT()
	}
	after := spec.ParseURLEncoded(got.u.Query())
	if mode == 0 {
		if got.u.Query() != d0.u.Query() || got.u.Href(false) != d0.u.Href(false) {
			r.Failf("%s: NoSort changed the URL: %s vs %s", where16(c), got.u.Href(false), d0.u.Href(false))
		}
		return
	}
	if pairsEqual(after, want, true) {
		return
	}
	// known finding: re-serializing the sorted list with the unfaithful serializer
	if hasCodecDelimiter(want) && got.u.Query() == treeSerialize(want) {
		r.Known("KF-C16-serializer", "%s: the sorted list %s is serialized as %s, which decodes as %s", where16(c), pairsString(want), quote(got.u.Query()), pairsString(after))
		return
	}
	// U+FFFD granularity: the tree serializes an invalid byte of a decoded name as %EF%BF%BD
	if hasCodecDelimiter(want) && spec.CollapseFFFD(string([]rune(got.u.Query()))) == spec.CollapseFFFD(treeSerialize(lossyList(want))) {
		r.Known("KF-C16-serializer", "%s: the sorted list %s is serialized as %s, which decodes as %s", where16(c), pairsString(want), quote(got.u.Query()), pairsString(after))
		return
	}
	r.Failf("%s: the decoded parameters after sorting are %s, expected %s (query %s -> %s)", where16(c), pairsString(after), pairsString(want), quote(d0.u.Query()), quote(got.u.Query()))
}

func lossyList(l []spec.Pair) []spec.Pair {
	out := make([]spec.Pair, len(l))
	for i, p := range l {
		out[i] = spec.Pair{Name: string([]rune(p.Name)), Value: string([]rune(p.Value))}
	}
	return out
}

var richDefaultSchemeProfiles = []struct {
	name string
	p    url.Parser
}{{"GoogleSafeBrowsing", canonicalizer.GoogleSafeBrowsing}, {"Semantic", canonicalizer.Semantic},
	{"New(default-scheme http, collapse, remove-port)", canonicalizer.New(canonicalizer.WithDefaultScheme("http"), url.WithCollapseConsecutiveSlashes(), canonicalizer.WithRemovePort())}}

func check16DefaultScheme(c Case16, r *core.Rec) {
	scheme := ""
	for _, o := range c.Opts {
		if o.Name == "default-scheme" {
			scheme = o.Str
		}
	}
	p := newProfile(buildOptions(c.Opts))
	x := string(c.Input)
	if c.HasBase && c.Base != "" {
		// with a base that the default parser accepts, the default scheme has nothing to repair in the
		// base, and a reference is never an "input that lacks a scheme": the result is the default one
		if _, berr := url.Parse(string(c.Base)); berr == nil {
			want := parse16(DefaultParser, c)
			if d := sameOutcome(parse16(p, c), want); d != "" {
				r.Failf("%s: the base parses, yet the profile's ParseRef differs from the default parser's: %s", where16(c), d)
			}
			r.Class("default-scheme:with-base")
			if !want.ok() {
				r.NT()
			}
		} else {
			// a base that fails only for lack of a scheme is read as scheme://base (the option's
			// documented effect applies to the URL that is missing a scheme, here the base)
			var tb spec.Trace
			if _, mok := Model.ParseT(string(c.Base), nil, &tb); !mok && tb.NoSchemeFailure() && scheme != "" {
				wu, werr := url.ParseRef(scheme+"://"+string(c.Base), x)
				if d := sameOutcome(parse16(p, c), parsed{wu, werr}); d != "" {
					r.Failf("%s: the base lacks a scheme but the profile's ParseRef does not give ParseRef(%s, ref): %s", where16(c), quote(scheme+"://"+string(c.Base)), d)
				}
				r.Class("default-scheme:base-applied")
				r.NT()
				// the same for profiles that carry other options as well: reading the base as
				// http://base must give what writing http://base gives — under the profile's own
				// configuration, which the result keeps for later setter calls
				for _, rp := range richDefaultSchemeProfiles {
					g := parsed{}
					g.u, g.err = rp.p.ParseRef(string(c.Base), x)
					w := parsed{}
					w.u, w.err = rp.p.ParseRef("http://"+string(c.Base), x)
					if d := sameOutcome(g, w); d != "" {
						r.Failf("%s: %s.ParseRef with the schemeless base differs from ParseRef(%s, ref): %s", where16(c), rp.name, quote("http://"+string(c.Base)), d)
						return
					}
					if g.ok() && w.ok() {
						g.u.SetPathname("/x//y/../z%41")
						w.u.SetPathname("/x//y/../z%41")
						if d := DiffObs(ObsOf(g.u), ObsOf(w.u)); d != "" {
							r.Failf("%s: after SetPathname on the result of %s.ParseRef with the schemeless base vs ParseRef(%s, ref): %s", where16(c), rp.name, quote("http://"+string(c.Base)), d)
							return
						}
					}
				}
			} else {
				r.Vacuous()
			}
		}
		return
	}
	u, err := p.Parse(x)
	got := parsed{u, err}
	d0u, d0err := url.Parse(x)
	d0 := parsed{d0u, d0err}
	var tr spec.Trace
	_, mok := Model.ParseT(x, nil, &tr)
	switch {
	case d0.ok():
		// unaffected
		if d := sameOutcome(got, d0); d != "" {
			r.Failf("%s: the default parser accepts the input but the profile gives something else: %s", where16(c), d)
		}
		r.Class("default-scheme:unaffected")
	case !mok && tr.NoSchemeFailure() && scheme != "":
		// fails only for lack of a scheme: parsed as scheme://input
		wu, werr := url.Parse(scheme + "://" + x)
		if d := sameOutcome(got, parsed{wu, werr}); d != "" {
			r.Failf("%s: the input lacks a scheme but the profile does not give the parse of %s: %s", where16(c), quote(scheme+"://"+x), d)
		}
		r.NT()
		r.Class("default-scheme:applied")
	default:
		if got.ok() {
			r.Failf("%s: the default parser fails (%v, the standard's parser fails in state %q) but the profile accepts: %s", where16(c), d0.err, tr.FailedIn(), got.u.Href(false))
		}
		r.Class("default-scheme:other-failure")
		if errors.Type(d0.err) == errors.MissingSchemeNonRelativeURL && !(tr.NoSchemeFailure()) {
			r.Failf("%s: error type says missing scheme but the standard's parser fails in state %q", where16(c), tr.FailedIn())
		}
	}
}

func check16Neutral(c Case16, r *core.Rec) {
	d0 := parse16(DefaultParser, c)
	trig := false
	for _, o := range c.Opts {
		if triggered(o, c, d0) {
			trig = true
			r.Class("triggered:" + o.Name)
		}
	}
	if trig {
		r.Vacuous()
		return
	}
	opts := buildOptions(c.Opts)
	for _, o := range c.Opts {
		r.Class("neutral:" + o.Name)
	}
	if len(c.Opts) >= 2 && d0.ok() {
		r.NT()
	}
	got := parse16(newParser(opts), c)
	if d := sameOutcome(got, d0); d != "" {
		r.Failf("%s: no option's trigger is present in the input, yet url.NewParser(options) differs from the default parser: %s", where16(c), d)
		return
	}
	// … and stays equal under setter calls whose values carry no trigger either
	if got.ok() && d0.ok() {
		for i, op := range c.Ops {
			ApplySetter(got.u, op.Setter, string(op.Value))
			ApplySetter(d0.u, op.Setter, string(op.Value))
			r.Class("neutral:setter-" + spec.SetterNames[op.Setter])
			if d := DiffObs(ObsOf(got.u), ObsOf(d0.u)); d != "" {
				r.Failf("%s: no option's trigger is present, yet after %s the URL of url.NewParser(options) differs from the default parser's: %s", where16(c), histString(CaseHist{Input: c.Input, Base: c.Base, HasBase: c.HasBase, Ops: c.Ops}, i), d)
				return
			}
		}
	}
	got = parse16(newProfile(opts), c)
	d0 = parse16(DefaultParser, c)
	if d := sameOutcome(got, d0); d != "" {
		r.Failf("%s: no option's trigger is present in the input, yet canonicalizer.New(options) differs from the default parser: %s", where16(c), d)
	}
}

func check16CollapseEffect(c Case16, r *core.Rec) {
	p := url.NewParser(url.WithCollapseConsecutiveSlashes())
	got := parse16(p, c)
	d0 := parse16(DefaultParser, c)
	if got.err == nil && got.u == nil {
		r.Failf("%s: returned (nil, nil)", where16(c))
		return
	}
	if !got.ok() {
		if d0.ok() {
			r.Failf("%s: collapsing makes the parse fail: %v", where16(c), got.err)
		}
		r.Vacuous()
		return
	}
	if !got.u.IsSpecialScheme() {
		if d := sameOutcome(got, d0); d != "" {
			r.Failf("%s: collapsing changed a non-special URL: %s", where16(c), d)
		}
		r.Class("collapse:non-special")
		return
	}
	if d0.ok() && strings.Contains(d0.u.Pathname(), "//") {
		r.NT()
	}
	if pn := got.u.Pathname(); strings.Contains(pn, "//") {
		if isCollapseDotFinding(c, pn) {
			r.Known("KF-C16-collapse-dots", "%s: Pathname() %q keeps an empty non-final segment", where16(c), pn)
			return
		}
		r.Failf("%s: collapsing leaves an empty non-final segment: Pathname() %q", where16(c), pn)
		return
	}
	r.Class("collapse:special")
}

// isCollapseDotFinding is the classifier of KF-C16-collapse-dots (inert unless listed as open).
func isCollapseDotFinding(c Case16, pathname string) bool { return false }

var c16Templates = []struct{ comp, class, tpl string }{
	{"path", "special", "http://h/x%sy"}, {"path", "non-special", "foo://h/x%sy"}, {"path", "special", "file:///x%sy"},
	{"query", "special", "http://h/?x%sy"}, {"query", "non-special", "foo://h/?x%sy"}, {"query", "non-special", "foo:o?x%sy"},
	{"fragment", "special", "http://h/#x%sy"}, {"fragment", "non-special", "foo://h/#x%sy"}, {"fragment", "non-special", "foo:o#x%sy"},
	{"opaque-path", "non-special", "foo:x%sy"}, {"userinfo", "special", "http://x%sy@h/"},
}

func governs(opt, comp, class string) bool {
	switch opt {
	case "path-set":
		return comp == "path"
	case "query-set":
		return comp == "query" && class == "non-special"
	case "special-query-set":
		return comp == "query" && class == "special"
	case "fragment-set":
		return comp == "fragment" && class == "non-special"
	case "special-fragment-set":
		return comp == "fragment" && class == "special"
	}
	return false
}

func check16EncodeSetEffect(c Case16, r *core.Rec) {
	if len(c.Opts) != 1 {
		r.Vacuous()
		return
	}
	o := c.Opts[0]
	ch := rune(c.Char)
	if ch >= 0x80 || strings.ContainsRune("/\\?#\t\n\r @:[]", ch) || ch < 0x20 || ch == 0x7f {
		r.Vacuous() // delimiters and characters with a meaning of their own are not placed in components
		return
	}
	S := o.set()
	inDelta := S.RuneShouldBeEncoded(ch) != encSetDefaults[o.Name].RuneShouldBeEncoded(ch)
	if inDelta {
		r.NT()
	}
	p := url.NewParser(o.option())
	for _, t := range c16Templates {
		in := strings.ReplaceAll(t.tpl, "%s", string(ch))
		gu, gerr := p.Parse(in)
		du, derr := url.Parse(in)
		if derr != nil {
			continue
		}
		if gerr != nil || gu == nil {
			r.Failf("%s with %s: parse fails: %v", quote(in), optNames(c.Opts), gerr)
			return
		}
		if governs(o.Name, t.comp, t.class) {
			want := "x" + string(ch) + "y"
			if S.RuneShouldBeEncoded(ch) {
				want = fmt.Sprintf("x%%%02Xy", ch)
			}
			var comp string
			switch t.comp {
			case "path":
				comp = strings.TrimPrefix(gu.Pathname(), "/")
			case "query":
				comp = gu.Query()
			case "fragment":
				comp = gu.Fragment()
			}
			if comp != want {
				r.Failf("%s with %s: the %s of a %s URL is %q, expected %q (the replaced set says encode=%v)", quote(in), optNames(c.Opts), t.comp, t.class, comp, want, S.RuneShouldBeEncoded(ch))
				return
			}
			r.Class("encset:governed:" + o.Name)
		} else {
			if d := DiffObs(ObsOf(gu), ObsOf(du)); d != "" {
				r.Failf("%s with %s: the option does not name the %s of a %s URL, yet the result differs from the default parser: %s", quote(in), optNames(c.Opts), t.comp, t.class, d)
				return
			}
			r.Class("encset:other")
		}
	}
}

func check16SkipEquals(c Case16, r *core.Rec) {
	mk := func(p url.Parser, pairs []Pair) (string, bool) {
		u, err := p.Parse("http://h/")
		if err != nil {
			return "", false
		}
		sp := u.SearchParams()
		for _, pr := range pairs {
			sp.Append(string(pr.Name), string(pr.Value))
		}
		return sp.String(), true
	}
	skip := url.NewParser(url.WithSkipEqualsForEmptySearchParamsValue())
	got, ok := mk(skip, c.Pairs)
	if !ok {
		r.Failf("http://h/ does not parse with skip-equals")
		return
	}
	var parts []string
	empties := 0
	for _, pr := range c.Pairs {
		one, _ := mk(DefaultParser, []Pair{pr})
		if string(pr.Value) == "" {
			empties++
			if !strings.HasSuffix(one, "=") {
				r.Failf("default serialization of (%s,\"\") is %q, which does not end in '='", quote(string(pr.Name)), one)
				return
			}
			one = strings.TrimSuffix(one, "=")
		}
		parts = append(parts, one)
	}
	want := strings.Join(parts, "&")
	if empties > 0 && empties < len(c.Pairs) {
		r.NT()
	}
	if got != want {
		r.Failf("skip-equals serializes %v as %q, expected %q (the default serialization with '=' dropped exactly for empty values)", c.Pairs, got, want)
	}
}

func check16SpecialSchemeEffect(c Case16, r *core.Rec) {
	if len(c.Opts) != 1 || c.Opts[0].Name != "special-schemes" {
		r.Vacuous()
		return
	}
	name, port := c.Opts[0].Str, c.Opts[0].Port
	// Input is the text after the scheme, written for "http" with default port 80; the added scheme
	// must parse it the same way with its own name and default port
	// ("{DP}" stands for the scheme's default port)
	rest := strings.ReplaceAll(string(c.Input), "{DP}", port)
	p := url.NewParser(c.Opts[0].option())
	gu, gerr := p.Parse(name + rest)
	mapped := strings.ReplaceAll(string(c.Input), "{DP}", "80")
	du, derr := url.Parse("http" + mapped)
	if (gerr == nil) != (derr == nil) {
		r.Failf("%s with %s: ok=%v (%v) but http%s ok=%v with the default parser", quote(name+rest), optNames(c.Opts), gerr == nil, gerr, mapped, derr == nil)
		return
	}
	if derr != nil {
		r.Vacuous()
		return
	}
	r.NT()
	g, w := ObsOf(gu), ObsOf(du)
	w[0] = name + strings.TrimPrefix(w[0], "http")
	w[1] = name + ":"
	if g != w {
		r.Failf("%s with %s: differs from how http%s parses (scheme renamed): %s", quote(name+rest), optNames(c.Opts), mapped, DiffObs(g, w))
		return
	}
	if !gu.IsSpecialScheme() {
		r.Failf("%s with %s: IsSpecialScheme() is false", quote(name+rest), optNames(c.Opts))
		return
	}
	// the derived accessors follow the configured table too: no port means the ADDED scheme's default
	wantPort := du.DecodedPort()
	if du.Port() == "" {
		wantPort = 0 // a scheme added with "" has no default port
		if n, err := strconv.Atoi(port); err == nil {
			wantPort = n
		}
	}
	if gu.DecodedPort() != wantPort {
		r.Failf("%s with %s: DecodedPort() is %d, expected %d (Port() %q, the scheme's default port is %s)", quote(name+rest), optNames(c.Opts), gu.DecodedPort(), wantPort, gu.Port(), port)
		return
	}
	if gu.IsIPv4() != du.IsIPv4() || gu.IsIPv6() != du.IsIPv6() {
		r.Failf("%s with %s: IsIPv4/IsIPv6 differ from how http%s parses", quote(name+rest), optNames(c.Opts), mapped)
	}
}

// ---- generators ------------------------------------------------------------------------------------------

var c16SafeChars = []uint{'!', '$', '&', '\'', '(', ')', '*', '+', ',', ';', '=', '^', '_', '`', '{', '|', '}', '~', '"', '<', '>', '-', '.', 'a', 'Z', '0', '%'}
var neutralOpts = []string{"report", "accept-invalid", "single-percent", "collapse", "skip-drive", "special-schemes", "lax-host", "skip-equals", "allow-path-nonbase", "path-set", "query-set", "special-query-set", "fragment-set", "special-fragment-set"}
var encSetOpts = []string{"path-set", "query-set", "special-query-set", "fragment-set", "special-fragment-set"}

func genOpt(t *rapid.T, name string) Opt16 {
	o := Opt16{Name: name}
	switch name {
	case "special-schemes":
		// a new scheme, or a standard one given another default port (the table is the caller's)
		o.Str = gen.Pick(t, "newscheme", []string{"gopher", "foo", "zz", "http", "ws", "ftp"})
		o.Port = gen.Pick(t, "newport", []string{"70", "1234", ""})
	case "path-set", "query-set", "special-query-set", "fragment-set", "special-fragment-set":
		n := rapid.IntRange(1, 3).Draw(t, "ndelta")
		for i := 0; i < n; i++ {
			ch := c16SafeChars[rapid.IntRange(0, len(c16SafeChars)-1).Draw(t, "deltachar")]
			if rapid.IntRange(0, 1).Draw(t, "addclear") == 0 {
				o.Add = append(o.Add, ch)
			} else {
				o.Clear = append(o.Clear, ch)
			}
		}
	}
	return o
}

func genInput16(t *rapid.T, c *Case16) {
	in, base, has := gen.InputWithBase(t)
	c.Input, c.Base, c.HasBase = B(in), B(base), has
}

var c16SortQueries = []string{"?a*=1&a+b=2", "?k!=1&k+=2&k=3", "?b=2&a=1", "?a=2&a=1&b=0", "?c&b&a", "?a=1&A=2&a=0", "?b=%41&a=%42", "?z=1&y=%26&x=%3D", "?b=1+1&a=2%2B2", "?b&a=b=c&a", "?%FF=1&a=2", "?é=1&e=2&z=3", "?a=1#f", "?&&b=&a=&", "?b=2&a=1&b=1&a=2", "?a%26b=1&a=2", "?x=%25&w=1"}

func Gen16(t *rapid.T) Case16 {
	var c Case16
	clauses := []string{"neutral", "neutral", "neutral", "remove", "remove", "sort", "default-scheme", "no-options", "collapse-effect", "encode-set-effect", "skip-equals", "special-scheme-effect", "canon-combo", "canon-combo", "documented-effect"}
	c.Clause = gen.Pick(t, "clause", clauses)
	switch c.Clause {
	case "no-options":
		genInput16(t, &c)
		if c.HasBase && rapid.IntRange(0, 5).Draw(t, "emptyBase") == 0 {
			c.Base = ""
		}
	case "remove":
		genInput16(t, &c)
		if rapid.IntRange(0, 2).Draw(t, "rich") == 0 {
			c.Input = B(gen.Pick(t, "rich", []string{"http://u:p@h:81/p?q#f", "foo://u@h:1/p#f", "a:b  #f", "a:b ?q#", "ws://:p@h:80/#", "http://h:00081/#a b", "foo:o #", "file:///p#f", "http://u:p@h/#"}))
		}
		for _, n := range []string{"remove-user-info", "remove-port", "remove-fragment"} {
			if rapid.IntRange(0, 1).Draw(t, n) == 1 {
				c.Opts = append(c.Opts, Opt16{Name: n})
			}
		}
		if len(c.Opts) == 0 {
			c.Opts = append(c.Opts, Opt16{Name: "remove-fragment"})
		}
	case "documented-effect":
		if rapid.IntRange(0, 1).Draw(t, "which") == 0 {
			c.Opts = []Opt16{{Name: "single-percent"}}
			switch rapid.IntRange(0, 2).Draw(t, "pctInput") {
			case 0:
				c.Input = B(gen.Pick(t, "pct", []string{"http://h/%", "http://h/a%2", "http://h/%zz/b", "foo:a%b", "mailto:50%off@x", "http://h/%%41", "http://h/%4%41", "file:///%", "foo://h/p%", "http://h/x%25%", "data:%%%", "http://h/%e2%82%"}))
			case 1:
				c.Input = B("http://h/" + gen.Soup(t, "pctsoup", 5))
			default:
				genInput16(t, &c)
			}
		} else {
			c.Opts = []Opt16{{Name: "skip-drive"}}
			l := gen.Pick(t, "letter", []string{"C", "c", "z", "A"})
			c.Input = B(gen.Pick(t, "fileprefix", []string{"file:///", "file:/", "FILE:///", "file:\\\\\\"}) + l + "|" + gen.Pick(t, "driverest", []string{"", "/", "/x/y", "/x/", "?q", "#f", "/a b", "/x?q#f", "/C|/y"}))
		}
	case "canon-combo":
		switch rapid.IntRange(0, 3).Draw(t, "comboInput") {
		case 0:
			c.Input = B(gen.Pick(t, "rich", []string{"http://u:p@h:81/p?b=2&a=1#f", "foo://u@h:1/p?z&y#f", "a:b  ?b&a#f", "ws://:p@h:80/?c=3&a=1&b=2#", "www.example.com:81/p?b&a#f", "u:p@h/p?q#f", "h:80/x?b=1&a=2", "example.com", "//h/p", "http://h/?a=1&A=2&a=0#"}))
		case 1:
			c.Input = B("http://u:p@h:81/p?" + genQuery(t) + "#f")
		case 2:
			c.Input = B("http://u:p@h:81/p?" + genLongQuery(t) + "#f")
		default:
			genInput16(t, &c)
		}
		for _, n := range []string{"remove-user-info", "remove-port", "remove-fragment"} {
			if rapid.IntRange(0, 1).Draw(t, n) == 1 {
				c.Opts = append(c.Opts, Opt16{Name: n})
			}
		}
		if rapid.IntRange(0, 1).Draw(t, "withsort") == 1 {
			c.Opts = append(c.Opts, Opt16{Name: "sort-query", Sort: rapid.IntRange(0, 2).Draw(t, "sortmode")})
		}
		if !c.HasBase && rapid.IntRange(0, 1).Draw(t, "withdefscheme") == 1 {
			c.Opts = append(c.Opts, Opt16{Name: "default-scheme", Str: gen.Pick(t, "defscheme", []string{"http", "https", "foo", "ws"})})
		}
		// the options in any order, and parser options in between (option lists are assembled from
		// shared pieces; the result must not depend on how the list is laid out)
		if rapid.IntRange(0, 1).Draw(t, "mixed") == 1 {
			for i, k := 0, rapid.IntRange(1, 2).Draw(t, "nmixed"); i < k; i++ {
				c.Opts = append(c.Opts, Opt16{Name: gen.Pick(t, "mixedopt", []string{"accept-invalid", "skip-drive", "single-percent"})})
			}
		}
		// the same option given twice (identically) is still that option: whatever a list with two
		// different options of one kind means, an identical repetition cannot mean anything else
		if len(c.Opts) > 0 && rapid.IntRange(0, 2).Draw(t, "dup") == 0 {
			c.Opts = append(c.Opts, c.Opts[rapid.IntRange(0, len(c.Opts)-1).Draw(t, "dupwhich")])
		}
		if len(c.Opts) > 1 && rapid.IntRange(0, 1).Draw(t, "shuffle") == 1 {
			c.Opts = rapid.Permutation(c.Opts).Draw(t, "order")
		}
	case "sort":
		genInput16(t, &c)
		if rapid.IntRange(0, 1).Draw(t, "withquery") == 0 {
			q := gen.Pick(t, "sortquery", c16SortQueries)
			switch rapid.IntRange(0, 3).Draw(t, "genquery") {
			case 0:
				q = "?" + genQuery(t)
			case 1:
				q = "?" + genLongQuery(t)
			case 2:
				q = "?" + genOrderQuery(t)
			}
			c.Input, c.HasBase = B("http://h/p"+q), false
		}
		c.Opts = []Opt16{{Name: "sort-query", Sort: rapid.IntRange(0, 2).Draw(t, "sortmode")}}
	case "default-scheme":
		switch rapid.IntRange(0, 2).Draw(t, "inkind") {
		case 0:
			c.Input = B(gen.Pick(t, "schemeless", []string{"www.example.com/", "example.com", "h/p?q#f", "1.2.3.4:80/x", "[::1]/", "//h/p", "/p", "?q", "#f", "", " h ", "h:80", "u:p@h/", "%20h/", "h\\p", "a b", "é.com/", "1:2", ":80", "h:80/p"}))
		default:
			c.Input = B(gen.Input(t, "input"))
		}
		c.Opts = []Opt16{{Name: "default-scheme", Str: gen.Pick(t, "defscheme", []string{"http", "https", "foo", "", "9x", "file", "ws"})}}
		if rapid.IntRange(0, 3).Draw(t, "dsBase") == 0 {
			c.HasBase = true
			c.Base = B(gen.Pick(t, "dsBaseV", []string{"mailto:a@b", "data:x", "foo:o?q", "http://h/p", "file:///d/e", "foo://h/p", "urn:x:y", "www.example.com/a/b", "example.com", "h/p?q", "1.2.3.4/x", "//h/p", "/only/path"}))
			c.Input = B(gen.Ref(t, "dsRef", gen.SchemeOf(string(c.Base))))
		}
	case "neutral":
		genInput16(t, &c)
		if rapid.IntRange(0, 1).Draw(t, "withSetters") == 0 {
			if rapid.IntRange(0, 1).Draw(t, "richStart") == 0 {
				c.Input, c.HasBase = B(gen.Pick(t, "nstart", []string{"http://u:p@h:81/p?q#f", "foo://u@h/p", "file:///C:/x", "http://h/", "foo:/p"})), false
			}
			for i, n := 0, rapid.IntRange(1, 3).Draw(t, "nsetters"); i < n; i++ {
				w := rapid.IntRange(0, spec.NumSetters-1).Draw(t, "setter")
				v := gen.SetterValue(t, "value", w)
				if rapid.IntRange(0, 3).Draw(t, "escEnd") == 0 {
					v = gen.Pick(t, "escValue", []string{"x%41", "%41", "a%2541", "%41%42", "a b%20", "%7e", "é%C3%A9", "%00"})
				}
				c.Ops = append(c.Ops, Op{Kind: "set", Setter: w, Value: B(v)})
			}
		}
		n := rapid.IntRange(1, 4).Draw(t, "nopts")
		seen := map[string]bool{}
		for i := 0; i < n; i++ {
			name := gen.Pick(t, "opt", neutralOpts)
			if seen[name] {
				continue
			}
			seen[name] = true
			c.Opts = append(c.Opts, genOpt(t, name))
		}
	case "collapse-effect":
		if rapid.IntRange(0, 1).Draw(t, "slashy") == 0 {
			var sb strings.Builder
			sb.WriteString(gen.Pick(t, "prefix", []string{"http://h", "https://h:1", "file://", "file://h", "ws://h", "foo://h", "http:", "file:", "http:/", "foo:"}))
			n := rapid.IntRange(1, 6).Draw(t, "nseg")
			for i := 0; i < n; i++ {
				sb.WriteString(gen.Pick(t, "sl", []string{"/", "//", "///", "\\", "/\\", "\\\\"}))
				sb.WriteString(gen.Pick(t, "seg", []string{"a", "b", "", ".", "..", "%2e", "%2E%2e", "C|", "c:", "a b", "x"}))
			}
			sb.WriteString(gen.Pick(t, "tail", []string{"", "/", "//", "?q//r", "#f//g", "/.", "/..", "//.", "//.."}))
			c.Input = B(sb.String())
			if rapid.IntRange(0, 2).Draw(t, "cbase") == 0 {
				c.HasBase = true
				c.Base = B(gen.Pick(t, "cbasev", []string{"http://h/a//b/", "http://h//", "file:///C:/a//b", "http://h/a/b", "file:////x"}))
			}
		} else {
			genInput16(t, &c)
		}
		c.Opts = []Opt16{{Name: "collapse"}}
	case "encode-set-effect":
		c.Opts = []Opt16{genOpt(t, gen.Pick(t, "encopt", encSetOpts))}
		o := c.Opts[0]
		all := append(append([]uint{}, o.Add...), o.Clear...)
		if rapid.IntRange(0, 2).Draw(t, "fromdelta") != 0 {
			c.Char = all[rapid.IntRange(0, len(all)-1).Draw(t, "whichdelta")]
		} else {
			c.Char = c16SafeChars[rapid.IntRange(0, len(c16SafeChars)-1).Draw(t, "char")]
		}
	case "skip-equals":
		n := rapid.IntRange(0, 5).Draw(t, "npairs")
		for i := 0; i < n; i++ {
			v := ""
			if rapid.IntRange(0, 1).Draw(t, "emptyvalue") == 0 {
				v = gen.Pick(t, "value", c11Values)
			}
			c.Pairs = append(c.Pairs, Pair{Name: B(gen.Pick(t, "name", c11Names)), Value: B(v)})
		}
		c.Opts = []Opt16{{Name: "skip-equals"}}
	case "special-scheme-effect":
		o := Opt16{Name: "special-schemes", Str: gen.Pick(t, "newscheme", []string{"gopher", "foo", "zz", "http", "ws", "ftp", "wss"}), Port: gen.Pick(t, "newport", []string{"70", "1234", ""})}
		o.Pad = rapid.SampledFrom([]int{0, 0, 0, 1, 2, 3, 9, 10, 26, 58, 250}).Draw(t, "tablepad")
		c.Opts = []Opt16{o}
		host := gen.Pick(t, "host", []string{"h", "example.com", "EXAMPLE.com", "1.2.3.4", "0x7f.1", "[::1]", "a b", ""})
		port := gen.Pick(t, "port", []string{"", ":{DP}", ":81", ":", ":0{DP}", ":0", ":00"})
		if o.Port == "" {
			port = gen.Pick(t, "portNoDefault", []string{"", ":0", ":81", ":", ":00", ":65535"})
		}
		sep := gen.Pick(t, "sep", []string{"://", ":\\\\", ":/", ":", ":///", ":/\\"})
		path := gen.Pick(t, "path", []string{"/", "/p", "\\p\\q", "/a/../b", "", "/p?q#f", "/C|/x", "/%2e%2E/"})
		c.Input = B(sep + host + port + path)
	}
	return c
}

// genLongQuery: 8..40 parameters over a few repeated names with distinct values, so that stability
// of the sort is observable (sort implementations switch algorithm above a dozen elements).
// genOrderQuery: names with a common prefix whose order as written differs from their order once
// decoded — '+' is a space (before everything) but is written with a byte that sorts after
// ! $ ( ) * and before , - . — so "already in order as written" and "in order" are different things.
func genOrderQuery(t *rapid.T) string {
	prefix := gen.Pick(t, "oprefix", []string{"a", "", "k", "a+", "ab"})
	tails := []string{"*", "+", "!", "+b", "(x", "", "-", ",", "$", ")", "+*", "*+", ".", "a", "+a", "%20", "%2B"}
	if rapid.IntRange(0, 3).Draw(t, "obytes") == 0 {
		// name and value compared as one string: a UTF-8 sequence split across the '=' (and its neighbours in the order)
		prefix = "k"
		// ... and truncated sequences at the very end of a name (lead byte plus some continuation bytes),
		// next to names that sort between one and several U+FFFD
		tails = []string{"%C3=%A9", "%C3%A9=", "=%C3%A9", "%EF%BF%BD=", "%C3=", "z=", "%C3%AA=", "%C3=%A9%C3", "=", "%E6%97=%A5",
			"%E2%82=", "%EF%BF%BDa=", "%F0%9F%98=", "%EF%BF%BD%EF%BF%BD=", "%EF%BF%BD%EF%BF%BDa=", "%E2%82a=", "=%E2%82", "=%EF%BF%BDa"}
		n := rapid.IntRange(2, 5).Draw(t, "onames")
		if rapid.IntRange(0, 2).Draw(t, "olong") == 0 {
			n = rapid.SampledFrom([]int{63, 64, 65, 70, 128}).Draw(t, "olen")
		}
		var parts []string
		for i := 0; i < n; i++ {
			parts = append(parts, prefix+gen.Pick(t, "otail", tails))
		}
		return strings.Join(parts, "&")
	}
	n := rapid.IntRange(2, 5).Draw(t, "onames")
	var parts []string
	for i := 0; i < n; i++ {
		parts = append(parts, fmt.Sprintf("%s%s=%d", prefix, gen.Pick(t, "otail", tails), i))
	}
	return strings.Join(parts, "&")
}

func genLongQuery(t *rapid.T) string {
	n := rapid.IntRange(8, 40).Draw(t, "nparams")
	if rapid.IntRange(0, 3).Draw(t, "verylong") == 0 {
		n = gen.SizeSteps[rapid.IntRange(0, len(gen.SizeSteps)-1).Draw(t, "nparamsStep")]
	}
	names := []string{"b", "a", "c", "b", "a", "d", "B", "aa"}
	var parts []string
	for i := 0; i < n; i++ {
		parts = append(parts, fmt.Sprintf("%s=%d", names[rapid.IntRange(0, len(names)-1).Draw(t, "pname")], i))
	}
	return strings.Join(parts, "&")
}

func sortedOptNames(opts []Opt16) []string {
	var n []string
	for _, o := range opts {
		n = append(n, o.Name)
	}
	sort.Strings(n)
	return n
}

var P16 = core.Register(core.Prop[Case16]{
	ID: "C16",
	Rule: "each case draws a clause and its data: no-options (canonicalizer.New(), url.NewParser(), WhatWg vs the package functions, incl. the empty base string); remove (any subset of remove-user-info / remove-port / remove-fragment vs the reference model's parse followed by the standard's setter steps, cross-checked with the real setters); sort (SortKeys / SortParameter / NoSort vs the sorted decoded list of the default parser's result); default-scheme (unaffected / parsed as scheme://input exactly when the reference model fails in the no-scheme state / still failing); neutral (1..4 of 14 parser options with generated encode sets and added schemes: if no option's trigger is present in the input text — and in the values of up to three setter calls applied afterwards — the result equals the default parser's); collapse-effect (no empty non-final segment in special paths, non-special untouched); encode-set-effect (a replaced set governs exactly its component and scheme class); documented-effect (single-percent-sign leaves no lone '%' in the path and changes nothing else, and PercentEncodeString / the credential setters under it write each such '%' as %25; skip-drive-letter-normalization keeps a first segment written X| and changes nothing else); canon-combo (any subset of the five canonicalizer options together vs the default parser's result with the default-scheme rule, the real setters and the sorted decoded list); skip-equals ('=' dropped exactly for empty values); special-scheme-effect (an added scheme parses like http with its own default port); " +
		"non-trivial = the clause's option actually applies to the input (its trigger / target is present), or at least 2 options combined with all triggers absent on a parsing input; distinct by hash of the case",
	Gen:   Gen16,
	Check: Check16,
})
