package props

import (
	"fmt"
	"strconv"
	"strings"

	"github.com/nlnwa/whatwg-url/canonicalizer"
	"github.com/nlnwa/whatwg-url/url"
	"pgregory.net/rapid"

	"verif/harness/core"
	"verif/harness/gen"
	"verif/harness/spec"
)

// C19 — derived accessors always agree with the primary components.

var defaultPortNum = map[string]int{"ftp": 21, "http": 80, "https": 443, "ws": 80, "wss": 443}

// derivedAgreeDerivedFirst reads the derived accessors before anything else (after a history during
// which nothing was read), then checks them as usual; what they said first must be what they say then.
func derivedAgreeDerivedFirst(u *url.Url) string {
	v6, v4, dp := u.IsIPv6(), u.IsIPv4(), u.DecodedPort()
	if msg := derivedAgree(u); msg != "" {
		return msg
	}
	if u.IsIPv6() != v6 || u.IsIPv4() != v4 || u.DecodedPort() != dp {
		return fmt.Sprintf("read before any other getter IsIPv6/IsIPv4/DecodedPort were %v/%v/%d, after the other getters they are %v/%v/%d (Href %q)", v6, v4, dp, u.IsIPv6(), u.IsIPv4(), u.DecodedPort(), u.Href(false))
	}
	return ""
}

func derivedAgree(u *url.Url) string {
	href := u.Href(false)
	hostname, port, proto := u.Hostname(), u.Port(), u.Protocol()
	scheme := strings.TrimSuffix(proto, ":")
	wantV6 := strings.HasPrefix(hostname, "[") && strings.HasSuffix(hostname, "]")
	if wantV6 {
		// (under lax host parsing a bracketed text need not be an address)
		_, wantV6 = spec.ParseIPv6(hostname[1 : len(hostname)-1])
	}
	if u.IsIPv6() != wantV6 {
		return fmt.Sprintf("IsIPv6()=%v but Hostname() is %q (Href %q)", u.IsIPv6(), hostname, href)
	}
	special := isSpecialScheme(scheme)
	wantV4 := special && isDottedDecimal(hostname)
	if u.IsIPv4() != wantV4 {
		return fmt.Sprintf("IsIPv4()=%v but the URL is special=%v with Hostname() %q (Href %q)", u.IsIPv4(), special, hostname, href)
	}
	wantPort := 0
	if port != "" {
		n, err := strconv.Atoi(port)
		if err != nil {
			return fmt.Sprintf("Port() %q is not a number", port)
		}
		wantPort = n
	} else if dp, ok := defaultPortNum[scheme]; ok {
		wantPort = dp
	}
	if got := u.DecodedPort(); got != wantPort {
		return fmt.Sprintf("DecodedPort()=%d but Port() is %q and the scheme is %q: expected %d (Href %q)", got, port, scheme, wantPort, href)
	}
	if u.Scheme()+":" != proto {
		return fmt.Sprintf("Scheme() %q and Protocol() %q differ by more than ':'", u.Scheme(), proto)
	}
	if s, q := u.Search(), u.Query(); !(s == "" && q == "") && s != "?"+q {
		return fmt.Sprintf("Search() %q and Query() %q differ by more than '?'", s, q)
	}
	if h, f := u.Hash(), u.Fragment(); !(h == "" && f == "") && h != "#"+f {
		return fmt.Sprintf("Hash() %q and Fragment() %q differ by more than '#'", h, f)
	}
	if u.IsSpecialScheme() != special {
		return fmt.Sprintf("IsSpecialScheme()=%v for scheme %q", u.IsSpecialScheme(), scheme)
	}
	// shape of the serialization: an opaque path is what follows "scheme:" when there is neither an
	// authority ("//") nor a path starting with "/" (the '/.' guard also starts with '/')
	rest := href[len(proto):]
	wantOpaque := !strings.HasPrefix(rest, "/")
	if special {
		wantOpaque = false
	}
	if u.OpaquePath() != wantOpaque {
		return fmt.Sprintf("OpaquePath()=%v but the serialization is %q", u.OpaquePath(), href)
	}
	return ""
}

func addrKind(u *url.Url) string {
	h := u.Hostname()
	switch {
	case h == "":
		return "none"
	case h[0] == '[':
		return "v6"
	case isDottedDecimal(h):
		return "v4"
	}
	return "name"
}

func Check19(c CaseHist, r *core.Rec) {
	iu, err := implStart(c)
	if err != nil || iu == nil {
		r.Vacuous()
		return
	}
	if msg := derivedAgree(iu); msg != "" {
		r.Failf("after parsing %s: %s", histString(c, -1), msg)
		return
	}
	r.Class("start:" + addrKind(iu))
	// parsing through a predefined profile is parsing too: the URL values the profiles hand out
	// (their hosts went through the hostname setter once more) must be as coherent
	if !c.HasBase {
		for _, pp := range c19Profiles {
			if pu, perr := pp.p.Parse(string(c.Input)); perr == nil && pu != nil {
				if msg := derivedAgree(pu); msg != "" {
					r.Failf("after parsing %s with %s: %s", quote(string(c.Input)), pp.name, msg)
					return
				}
				r.Class("profile-parse")
			}
		}
	}
	if c.Blind {
		// nothing is read between the steps: flags and the decoded port that are maintained by the
		// steps themselves (not recomputed by a getter) must be right without anyone having looked
		for _, op := range c.Ops {
			switch op.Kind {
			case "set":
				ApplySetter(iu, op.Setter, string(op.Value))
			case "resolve":
				if v, err := iu.Parse(string(op.Value)); err == nil && v != nil {
					iu = v
				}
			case "clone":
				iu = iu.Clone()
			}
		}
		r.Class("blind-history")
		if len(c.Ops) >= 2 {
			r.NT()
		}
		// DecodedPort and the flags first: they are what a step may have left stale
		if msg := derivedAgreeDerivedFirst(iu); msg != "" {
			r.Failf("after %s: %s", histString(c, len(c.Ops)-1), msg)
		}
		return
	}
	for i, op := range c.Ops {
		k0, p0, s0 := addrKind(iu), iu.Port(), iu.Protocol()
		switch op.Kind {
		case "set":
			ApplySetter(iu, op.Setter, valueFor(iu, op))
		case "resolve":
			v, err := iu.Parse(string(op.Value))
			if err != nil || v == nil {
				continue
			}
			iu = v
		case "clone":
			iu = iu.Clone()
		}
		r.Class("op:" + op.Kind)
		if k1 := addrKind(iu); k1 != k0 {
			r.NT()
			r.Class("host:" + k0 + ">" + k1)
		}
		if iu.Port() != p0 || iu.Protocol() != s0 {
			r.NT()
		}
		if msg := derivedAgree(iu); msg != "" {
			r.Failf("after %s: %s", histString(c, i), msg)
			return
		}
	}
}

var c19Profiles = []struct {
	name string
	p    url.Parser
}{{"GoogleSafeBrowsing", canonicalizer.GoogleSafeBrowsing}, {"WhatWgSortQuery", canonicalizer.WhatWgSortQuery}, {"New(WithRepeatedPercentDecoding(), WithRemovePort())", canonicalizer.New(canonicalizer.WithRepeatedPercentDecoding(), canonicalizer.WithRemovePort())}}

var c19Hosts = []string{"1.2.3.4", "example.com", "[::1]", "0x7f.1", "h", "[1:2::3]", "127.0.0.1:0", "h:0", "h:80", "h:443", "[::2]:0", "4294967295", "1.2.3", "a.1.2.3.4.b", "1.2.3.4.", ""}
var c19Ports = []string{"0", "", "80", "443", "21", "8080", "00", "000080", "65535"}
var c19Protos = []string{"http", "https", "ws", "wss", "ftp", "foo", "file", "bar"}
var c19Starts = []string{"http://1.2.3.4/", "http://h:0/", "https://[::1]:0/p", "foo://1.2.3.4/", "foo://1.2.3.4:0/", "ws://h:80/", "ftp://1.2.3.4:21/x?q#f", "http://example.com:8080/", "foo://[::1]/", "http://0x7f.1:0/", "file://1.2.3.4/", "foo:opaque", "foo:/p"}
var c19Refs = []string{"/x", "x", "?q", "#f", "", "//1.2.3.4/", "//[::1]/", "//h/", "//h:0/", "../y", "//5.6.7.8:0/p", "foo://1.1.1.1/", "https://[1::]/"}

func Gen19(t *rapid.T) CaseHist {
	if rapid.IntRange(0, 2).Draw(t, "mode") == 0 {
		return genHistory(t, histOpts{maxOps: 10, start: "pair", resolve: true, clone: true, blind: true})
	}
	// biased: address-kind alternation and port / scheme changes
	c := CaseHist{Input: B(gen.Pick(t, "start", c19Starts))}
	n := rapid.IntRange(0, 8).Draw(t, "nops")
	for i := 0; i < n; i++ {
		switch rapid.IntRange(0, 7).Draw(t, "kind") {
		case 0, 1:
			w := spec.SetterHost
			if rapid.IntRange(0, 1).Draw(t, "hn") == 0 {
				w = spec.SetterHostname
			}
			c.Ops = append(c.Ops, Op{Kind: "set", Setter: w, Value: B(gen.Pick(t, "host", c19Hosts))})
		case 2:
			c.Ops = append(c.Ops, Op{Kind: "set", Setter: spec.SetterPort, Value: B(gen.Pick(t, "port", c19Ports))})
		case 3:
			c.Ops = append(c.Ops, Op{Kind: "set", Setter: spec.SetterProtocol, Value: B(gen.Pick(t, "proto", c19Protos))})
		case 4, 5:
			c.Ops = append(c.Ops, Op{Kind: "resolve", Value: B(gen.Pick(t, "ref", c19Refs))})
		case 6:
			c.Ops = append(c.Ops, Op{Kind: "clone"})
		default:
			w := rapid.IntRange(0, spec.NumSetters-1).Draw(t, "setter")
			c.Ops = append(c.Ops, Op{Kind: "set", Setter: w, Value: B(gen.SetterValue(t, "value", w))})
		}
	}
	if rapid.IntRange(0, 3).Draw(t, "blind") == 0 {
		c.Blind = true
	}
	return c
}

var P19 = core.Register(core.Prop[CaseHist]{
	ID: "C19",
	Rule: "a start URL followed by 0..10 steps (nine setters, resolution against the current URL, Clone-and-continue-on-the-clone); one third general histories as in C04, two thirds biased to alternating IPv4 / IPv6 / domain hosts, ports 0 / default / empty and scheme changes; " +
		"oracle: after every step (a quarter of the histories: after the last step only, nothing having been read from the URL in between, and the derived accessors read first) IsIPv6, IsIPv4, DecodedPort, Scheme/Protocol, Query/Search, Fragment/Hash, OpaquePath and IsSpecialScheme are recomputed from Hostname, Port, Protocol and Href; " +
		"non-trivial = some step changed the host between address kinds (none / name / v4 / v6) or changed Port or the scheme; distinct by hash of the history",
	Gen:   Gen19,
	Check: Check19,
})
