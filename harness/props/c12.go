package props

import (
	"fmt"
	"sort"
	"strings"

	"github.com/nlnwa/whatwg-url/url"
	"pgregory.net/rapid"

	"verif/harness/core"
	"verif/harness/gen"
	"verif/harness/spec"
)

// C12 — a URL and its SearchParams always describe the same query.

type Op12 struct {
	Kind   string `json:"kind"`   // "sp", "setsearch", "setter", "fetch"
	Handle int    `json:"handle"` // sp: index into the live handles (modulo their number)
	SP     SPOp   `json:"sp,omitempty"`
	Setter int    `json:"setter,omitempty"`
	Value  B      `json:"value,omitempty"`
}

func (o Op12) String() string {
	switch o.Kind {
	case "sp":
		return fmt.Sprintf("handle%d.%s", o.Handle, o.SP.String())
	case "setsearch":
		return "SetSearch(" + quote(string(o.Value)) + ")"
	case "setsearch-current":
		if o.Setter == 1 {
			return "SetSearch(u.Query())"
		}
		return "SetSearch(u.Search())"
	case "setter":
		return spec.SetterNames[o.Setter] + "=" + quote(string(o.Value))
	case "clone-sp":
		if o.Handle%4 >= 2 {
			return "u.Parse(" + quote([]string{"", "#x"}[o.Handle%2]) + ").SearchParams()." + o.SP.String()
		}
		return "u.Clone().SearchParams()." + o.SP.String()
	case "swap-list":
		return "u.SetSearchParams(u.SearchParams().Clone())"
	case "lend-list":
		return "other.SetSearchParams(u.SearchParams())"
	}
	return "fetch"
}

type Case12 struct {
	Start B      `json:"start"`
	Ops   []Op12 `json:"ops"`
	// Via: "" the start string is parsed; "resolve": Start is parsed as a base, optionally its
	// SearchParams() is called (TouchBase), and the URL under test is base.Parse(Ref); "clone": the URL
	// under test is a Clone of the parsed start (after TouchBase).
	Via       string `json:"via,omitempty"`
	Ref       B      `json:"ref,omitempty"`
	TouchBase bool   `json:"touch_base,omitempty"`
	// Blind: nothing is read from the URL or its lists between the steps (see CaseHist.Blind)
	Blind bool `json:"blind,omitempty"`
}

// queryPartOfHref: the text between the first '?' and the '#' of the serialization ("" if no '?').
func queryPartOfHref(href string) (string, bool) {
	if i := strings.IndexByte(href, '#'); i >= 0 {
		href = href[:i]
	}
	i := strings.IndexByte(href, '?')
	if i < 0 {
		return "", false
	}
	return href[i+1:], true
}

func hist12(c Case12, upto int) string {
	if c.Via != "" {
		d := c
		d.Via = ""
		return fmt.Sprintf("[%s of %s ref=%s touch=%v] %s", c.Via, quote(string(c.Start)), quote(string(c.Ref)), c.TouchBase, hist12(d, upto))
	}
	var parts []string
	for _, o := range c.Ops[:upto+1] {
		parts = append(parts, o.String())
	}
	return quote(string(c.Start)) + " ; " + strings.Join(parts, " ; ")
}

// twinString serializes a list through a fresh URL's SearchParams (same serializer on both sides).
func twinString(l []spec.Pair) string {
	u, _ := url.Parse("http://twin/")
	sp := u.SearchParams()
	for _, p := range l {
		sp.Append(p.Name, p.Value)
	}
	return sp.String()
}

func listAgrees(sp *url.SearchParams, model listModel, extraNames []string) string {
	seen := map[string]bool{}
	var names []string
	for _, p := range model {
		if !seen[p.Name] {
			seen[p.Name] = true
			names = append(names, p.Name)
		}
	}
	for _, n := range extraNames {
		if !seen[n] {
			seen[n] = true
			names = append(names, n)
		}
	}
	sort.Strings(names)
	if msg := compareThroughGetters(sp, model, names, nil); msg != "" {
		return msg
	}
	if got, want := sp.String(), twinString(model); got != want {
		return fmt.Sprintf("String() is %s, the expected list %s serializes as %s", quote(got), pairsString(model), quote(want))
	}
	return ""
}

func collapseList(l []spec.Pair) listModel {
	out := make(listModel, len(l))
	for i, p := range l {
		out[i] = spec.Pair{Name: p.Name, Value: p.Value}
	}
	return out
}

// check12Blind: the operations of the history are applied without reading anything in between — no
// getter, no serialization, no list look-up (every invariant of Check12 reads, and a read brings a
// list that was only marked stale up to date before the next step sees it). The expected query is
// carried by the reference model's URL, the expected list by the list model; both are compared with
// the URL and with every handle after the last step only. Steps that are reads themselves, or that
// hand lists around, are left out.
func check12Blind(c Case12, r *core.Rec) {
	u, err := url.Parse(string(c.Start))
	mu, mok := Model.Parse(string(c.Start), nil)
	if err != nil || u == nil || !mok {
		r.Vacuous()
		return
	}
	muQuery := func() string {
		if mu.Query == nil {
			return ""
		}
		return *mu.Query
	}
	var handles []*url.SearchParams
	var model listModel
	known, sawSetSearch, mutatedAfter := false, false, false
	var names []string
	var applied []Op12
	for _, o := range c.Ops {
		switch o.Kind {
		case "fetch":
			handles = append(handles, u.SearchParams())
			if !known {
				model, known = collapseList(spec.ParseURLEncoded(muQuery())), true
			}
		case "sp":
			mut := o.SP.Op == "append" || o.SP.Op == "delete" || o.SP.Op == "set" || o.SP.Op == "sort" || o.SP.Op == "sortabs" || o.SP.Op == "iterate"
			if len(handles) == 0 || !mut {
				continue
			}
			if !validUTF8List(model) || ((o.SP.Op == "sort" || o.SP.Op == "sortabs") && sortAmbiguous(model)) {
				r.Vacuous()
				return
			}
			applyImpl(handles[o.Handle%len(handles)], o.SP)
			model = model.apply(o.SP)
			names = append(names, string(o.SP.Name))
			if q := twinString(model); q == "" {
				mu.Query = nil
			} else {
				mu.Query = &q
			}
			if sawSetSearch {
				mutatedAfter = true
			}
		case "setsearch":
			for j, p := range model {
				if j < 4 || j >= len(model)-4 {
					names = append(names, p.Name)
				}
			}
			Model.Set(mu, spec.SetterSearch, string(o.Value))
			u.SetSearch(string(o.Value))
			model, known, sawSetSearch = collapseList(spec.ParseURLEncoded(muQuery())), true, true
		case "setter":
			Model.Set(mu, o.Setter, string(o.Value))
			ApplySetter(u, o.Setter, string(o.Value))
		default:
			continue
		}
		applied = append(applied, o)
	}
	if len(applied) == 0 || !known || !validUTF8List(model) {
		r.Vacuous()
		return
	}
	r.Class("blind-history")
	shown, last := c, len(applied)-1
	shown.Ops = applied
	if sawSetSearch && mutatedAfter {
		r.NT()
	}
	if got, want := u.Query(), muQuery(); got != want {
		r.Failf("after [nothing read between the steps] %s: Query() is %s, expected %s (list model %s)", hist12(shown, last), quote(got), quote(want), pairsString(model))
		return
	}
	all := append(append([]*url.SearchParams{}, handles...), u.SearchParams())
	for hi, h := range all {
		if msg := listAgrees(h, model, names); msg != "" {
			r.Failf("after [nothing read between the steps] %s: handle %d of %d: %s (list model %s)", hist12(shown, last), hi, len(all), msg, pairsString(model))
			return
		}
	}
}

func Check12(c Case12, r *core.Rec) {
	if c.Blind && c.Via == "" {
		check12Blind(c, r)
		return
	}
	u, err := url.Parse(string(c.Start))
	if err != nil || u == nil {
		r.Vacuous()
		return
	}
	if c.Via != "" {
		if c.TouchBase {
			u.SearchParams()
		}
		if c.Via == "resolve" {
			u, err = u.Parse(string(c.Ref))
			if err != nil || u == nil {
				r.Vacuous()
				return
			}
		} else {
			u = u.Clone()
		}
		r.Class("via:" + c.Via)
	}
	var handles []*url.SearchParams
	var passed []*url.SearchParams // clones handed to SetSearchParams (see swap-list)
	var model listModel
	modelKnown := false // the expected list is known once a handle exists
	untracked := false  // ... and unknown again after a mutation through a clone handed to SetSearchParams, until the next SetSearch
	var namesInPlay []string
	sawSetSearch, oldHandleMutation := false, false
	handleBeforeSetSearch := map[int]bool{}
	for i, o := range c.Ops {
		switch o.Kind {
		case "fetch":
			h := u.SearchParams()
			if !modelKnown && !untracked {
				model = collapseList(spec.ParseURLEncoded(u.Query()))
				if !validUTF8List(model) {
					r.Vacuous()
					return
				}
				modelKnown = true
			}
			if !sawSetSearch {
				handleBeforeSetSearch[len(handles)] = true
			}
			handles = append(handles, h)
			r.Class("op:fetch")
		case "sp":
			if len(handles) == 0 {
				continue
			}
			if (o.SP.Op == "sort" || o.SP.Op == "sortabs") && sortAmbiguous(model) {
				return
			}
			if mutating := o.SP.Op == "append" || o.SP.Op == "delete" || o.SP.Op == "set" || o.SP.Op == "sort" || o.SP.Op == "sortabs" || o.SP.Op == "iterate"; mutating && len(passed) > 0 && o.Handle%4 == 3 {
				// a mutation through a clone that was handed to SetSearchParams: whether it still reaches
				// the URL is the implementation's business; if it does, the URL and its own list must
				// agree after it. What the list holds is not tracked any further (until a SetSearch).
				q0 := u.Query()
				applyImpl(passed[len(passed)-1], o.SP)
				own := u.SearchParams().String()
				if q := u.Query(); q != q0 && q != own {
					r.Failf("after %s (through the clone handed to SetSearchParams): Query() changed from %s to %s but u.SearchParams() serializes as %s", hist12(c, i), quote(q0), quote(q), quote(own))
					return
				}
				model, modelKnown, untracked = nil, false, true
				handles = []*url.SearchParams{u.SearchParams()}
				r.Class("op:sp-through-passed-clone")
				continue
			}
			hi := o.Handle % len(handles)
			h := handles[hi]
			applyImpl(h, o.SP)
			model = model.apply(o.SP)
			namesInPlay = append(namesInPlay, string(o.SP.Name))
			mut := o.SP.Op == "append" || o.SP.Op == "delete" || o.SP.Op == "set" || o.SP.Op == "sort" || o.SP.Op == "sortabs" || o.SP.Op == "iterate"
			r.Class("op:sp-" + o.SP.Op)
			if mut {
				if sawSetSearch && handleBeforeSetSearch[hi] {
					oldHandleMutation = true
				}
				// I1: the URL reflects the list's serialization
				s := h.String()
				if q := u.Query(); q != s {
					r.Failf("after %s: Query() is %s but the list serializes as %s", hist12(c, i), quote(q), quote(s))
					return
				}
				wantSearch := ""
				if s != "" {
					wantSearch = "?" + s
				}
				if got := u.Search(); got != wantSearch {
					r.Failf("after %s: Search() is %s but the list serializes as %s", hist12(c, i), quote(got), quote(s))
					return
				}
				if qp, _ := queryPartOfHref(u.Href(false)); qp != s {
					r.Failf("after %s: the query part of Href %s is %s but the list serializes as %s", hist12(c, i), quote(u.Href(false)), quote(qp), quote(s))
					return
				}
				// ... and the list the URL hands out now is that list
				if own := u.SearchParams().String(); own != s {
					r.Failf("after %s: the handle serializes as %s but u.SearchParams() as %s (Query() %s)", hist12(c, i), quote(s), quote(own), quote(u.Query()))
					return
				}
			}
		case "setsearch", "setsearch-current":
			v := string(o.Value)
			if o.Kind == "setsearch-current" {
				// the setter is called with exactly what the getter returns right now
				v = u.Search()
				if o.Setter == 1 {
					v = u.Query()
				}
			}
			if modelKnown {
				// the names the list held so far stay in play: after the setter they must be exactly
				// as present as the new query says (a look-up structure that outlives the list it indexes)
				for j, p := range model {
					if j < 4 || j >= len(model)-4 {
						namesInPlay = append(namesInPlay, p.Name)
					}
				}
			}
			u.SetSearch(v)
			sawSetSearch = true
			r.Class("op:setsearch")
			want := collapseList(spec.ParseURLEncoded(u.Query()))
			if v == "" && (u.Query() != "" || len(want) != 0) {
				r.Failf("after %s: the query was cleared but Query() is %s", hist12(c, i), quote(u.Query()))
				return
			}
			if !validUTF8List(want) {
				return // invalid UTF-8 in the decoded list: exact comparison through getters is not meaningful
			}
			model, modelKnown, untracked = want, true, false
			// I2: every live handle and a fresh one equal the form-urlencoded parse of the new query
			all := append(append([]*url.SearchParams{}, handles...), u.SearchParams())
			for hi, h := range all {
				if msg := listAgrees(h, model, namesInPlay); msg != "" {
					which := fmt.Sprintf("handle %d", hi)
					if hi == len(all)-1 {
						which = "a fresh SearchParams()"
					}
					r.Failf("after %s: %s does not equal the form-urlencoded parse %s of the new query %s: %s", hist12(c, i), which, pairsString(model), quote(u.Query()), msg)
					return
				}
			}
		case "clone-sp":
			// a list operation on a Clone of the URL is not an operation on this URL: its query, and (end
			// of the step) every handle of its list, are what they were
			if len(handles) == 0 {
				continue
			}
			q0, h0 := u.Query(), u.Href(false)
			cl := u.Clone()
			if o.Handle%4 >= 2 {
				// ... nor is one on the result of resolving a reference that keeps the query
				if v, verr := u.Parse([]string{"", "#x"}[o.Handle%2]); verr == nil && v != nil {
					cl = v
				}
			}
			applyImpl(cl.SearchParams(), o.SP)
			if q := u.Query(); q != q0 || u.Href(false) != h0 {
				r.Failf("after %s: an operation on a clone's list changed this URL's Query() from %s to %s (Href %s)", hist12(c, i), quote(q0), quote(q), quote(u.Href(false)))
				return
			}
			r.Class("op:clone-sp")
		case "swap-list", "lend-list":
			// SetSearchParams is outside the statement's operations, so nothing is asked about what it
			// does to handles obtained before it: they are dropped, and the URL's own list is fetched
			// again. What IS asked afterwards is the statement's invariant for u and that list.
			//  swap-list: the URL is given a Clone of its own list; the clone the caller still holds is
			//   kept as a "passed" handle: if a mutation through it reaches the URL at all, the URL and
			//   the list it hands out must still agree.
			//  lend-list: another URL is handed this URL's list.
			if len(handles) == 0 {
				continue
			}
			if o.Kind == "swap-list" {
				sp := u.SearchParams().Clone()
				u.SetSearchParams(sp)
				passed = append(passed, sp)
			} else if other, oerr := url.Parse("http://other.example/?z=26"); oerr == nil && other != nil {
				other.SetSearchParams(u.SearchParams())
				_ = other.Href(false)
			}
			handles = []*url.SearchParams{u.SearchParams()}
			handleBeforeSetSearch = map[int]bool{0: !sawSetSearch}
			// (the expected list is unchanged: a Clone holds the same pairs, lending changes nothing)
			r.Class("op:" + o.Kind)
		case "setter":
			q0 := u.Query()
			ApplySetter(u, o.Setter, string(o.Value))
			r.Class("op:setter-" + spec.SetterNames[o.Setter])
			// I3: other setters change neither the query nor the list
			if q := u.Query(); q != q0 {
				r.Failf("after %s: the %s setter changed Query() from %s to %s", hist12(c, i), spec.SetterNames[o.Setter], quote(q0), quote(q))
				return
			}
		}
		// I3/I4: all live handles are the same list, equal to the expected one
		if modelKnown {
			for hi, h := range handles {
				if msg := listAgrees(h, model, namesInPlay); msg != "" {
					r.Failf("after %s: handle %d: %s", hist12(c, i), hi, msg)
					return
				}
			}
		}
	}
	if sawSetSearch && oldHandleMutation {
		r.NT()
	}
}

var c12Starts = []string{"http://h/", "http://h/?a=1&b=2", "http://h/p?a=1&a=2#f", "http://h/?", "http://h/#f", "foo://h/p?x=y", "foo:opaque?a=b#f", "foo:opaque", "foo:o p ?q", "file:///p?q=1", "http://h/?a+b=c%20d&e=%26", "wss://h/?%41=%42&&=", "a:b ?#", "http://u:p@h:8/?k=v"}
var c12Search = []string{"", "?", "a=b", "?a=b", "??a", "a=1&a=2", "a&b", "x y", "a+b=c", "%41=%42", "a=%26", "#", "a#b", "\ta=b", "a=\nb", "&&", "=", "a==b", "é=ü", "%zz", "'", "c=3&a=1&b=2", "?a= b ", " "}
var c12OtherSetters = []int{spec.SetterHash, spec.SetterPathname, spec.SetterHost, spec.SetterProtocol, spec.SetterUsername, spec.SetterPort}

func Gen12(t *rapid.T) Case12 {
	var c Case12
	if rapid.IntRange(0, 3).Draw(t, "startKind") == 0 {
		c.Start = B(gen.StartURL(t, "start"))
	} else {
		c.Start = B(gen.Pick(t, "start", c12Starts))
	}
	if rapid.IntRange(0, 7).Draw(t, "longStart") == 0 {
		// a list long enough for an implementation to treat it differently (index, other sort)
		c.Start = B(gen.Pick(t, "longStartPrefix", []string{"http://h/?", "foo:opaque?", "http://h/p?"}) + genMediumQuery(t))
	}
	if rapid.IntRange(0, 3).Draw(t, "via") == 0 {
		c.Via = gen.Pick(t, "viaKind", []string{"resolve", "resolve", "clone"})
		c.TouchBase = rapid.IntRange(0, 2).Draw(t, "touchBase") != 0
		if c.Via == "resolve" {
			c.Ref = B(gen.Pick(t, "ref", []string{"", "#f", "#", "?x=1", "p", "/q?y=2", "../r", "?", "#?a=b"}))
		}
	}
	spOps := []string{"append", "append", "delete", "set", "sort", "sortabs", "get", "has", "iterate", "string"}
	genSP := func() Op12 {
		o := SPOp{Op: gen.Pick(t, "spop", spOps)}
		switch o.Op {
		case "append", "set":
			o.Name, o.Value = B(gen.Pick(t, "name", c11Names)), B(gen.Pick(t, "value", c11Values))
		case "delete", "get", "has":
			o.Name = B(gen.Pick(t, "name", c11Names))
		}
		return Op12{Kind: "sp", Handle: rapid.IntRange(0, 3).Draw(t, "handle"), SP: o}
	}
	genSetSearch := func() Op12 {
		if rapid.IntRange(0, 4).Draw(t, "current") == 0 {
			return Op12{Kind: "setsearch-current", Setter: rapid.IntRange(0, 1).Draw(t, "viaQuery")}
		}
		v := gen.Pick(t, "search", c12Search)
		switch rapid.IntRange(0, 11).Draw(t, "searchSoup") {
		case 0, 1:
			v = genQuery(t)
		case 2:
			v = genMediumQuery(t)
		}
		return Op12{Kind: "setsearch", Value: B(v)}
	}
	genSetter := func() Op12 {
		w := c12OtherSetters[rapid.IntRange(0, len(c12OtherSetters)-1).Draw(t, "setter")]
		return Op12{Kind: "setter", Setter: w, Value: B(gen.SetterValue(t, "value", w))}
	}
	if rapid.IntRange(0, 1).Draw(t, "shaped") == 0 {
		// the shape the statement singles out: a handle obtained before a SetSearch is used after it
		c.Ops = append(c.Ops, Op12{Kind: "fetch"})
		for i, n := 0, rapid.IntRange(0, 3).Draw(t, "pre"); i < n; i++ {
			c.Ops = append(c.Ops, genSP())
		}
		c.Ops = append(c.Ops, genSetSearch())
		if rapid.IntRange(0, 2).Draw(t, "refetch") == 0 {
			c.Ops = append(c.Ops, Op12{Kind: "fetch"})
		}
		for i, n := 0, rapid.IntRange(1, 4).Draw(t, "post"); i < n; i++ {
			switch rapid.IntRange(0, 6).Draw(t, "postkind") {
			case 0:
				c.Ops = append(c.Ops, genSetSearch())
			case 1:
				c.Ops = append(c.Ops, genSetter())
			case 6:
				o := genSP()
				o.Kind = "clone-sp"
				c.Ops = append(c.Ops, o)
			default:
				o := genSP()
				o.Handle = 0
				c.Ops = append(c.Ops, o)
			}
		}
		c.Blind = c.Via == "" && rapid.IntRange(0, 3).Draw(t, "blind") == 0
		return c
	}
	n := rapid.IntRange(1, 12).Draw(t, "nops")
	fetched := false
	for i := 0; i < n; i++ {
		k := rapid.IntRange(0, 9).Draw(t, "kind")
		switch {
		case k == 0 || (!fetched && k <= 4):
			c.Ops = append(c.Ops, Op12{Kind: "fetch"})
			fetched = true
		case k <= 5:
			c.Ops = append(c.Ops, genSP())
		case k <= 7:
			c.Ops = append(c.Ops, genSetSearch())
		case k == 8 && rapid.IntRange(0, 1).Draw(t, "listop") == 0:
			o := Op12{Kind: gen.Pick(t, "listopKind", []string{"swap-list", "lend-list", "clone-sp", "clone-sp"})}
			if o.Kind == "clone-sp" {
				o = genSP()
				o.Kind = "clone-sp"
			}
			c.Ops = append(c.Ops, o)
		default:
			c.Ops = append(c.Ops, genSetter())
		}
	}
	c.Blind = c.Via == "" && rapid.IntRange(0, 3).Draw(t, "blind") == 0
	return c
}

// genMediumQuery: 9..40 parameters over few names (every step of a C12 case reads the whole list through
// the getters, so the very long lists of genLongQuery are left to C11, C16 and C02).
func genMediumQuery(t *rapid.T) string {
	n := rapid.SampledFrom([]int{9, 12, 13, 17, 24, 40}).Draw(t, "nparams")
	names := []string{"b", "a", "c", "b", "a", "d", "B", "aa"}
	var parts []string
	for i := 0; i < n; i++ {
		parts = append(parts, fmt.Sprintf("%s=%d", names[rapid.IntRange(0, len(names)-1).Draw(t, "pname")], i))
	}
	return strings.Join(parts, "&")
}

var P12 = core.Register(core.Prop[Case12]{
	ID: "C12",
	Rule: "a start URL (special / non-special, with and without query and fragment, opaque path; a quarter of the cases obtained by resolving a reference against — or cloning — a URL whose SearchParams() was or was not called before) and 1..12 steps: fetch a SearchParams handle (at any point, repeatedly), a list operation through any live handle, SetSearch(v) (incl. '', '?', delimiters, '#', tab), another setter (hash, pathname, host, protocol, username, port), SetSearchParams with a Clone of the URL's own list (which then is its list), another URL being handed this URL's list, a list operation on a Clone of the URL or on the result of resolving '' / '#x' against it (not an operation on this URL: query and handles stay); lists of 9..40 parameters in an eighth of the starts and setter values, and the names a replaced list held stay among the names looked up; " +
		"oracle, after every step (a quarter of the directly parsed histories are blind: nothing is read between the steps, the expected query is carried by the reference model's URL and the list model, and Query() and every handle are compared after the last step only): I1 after a list mutation Query / Search / the query part of Href equal the list's serialization, and so does the list u.SearchParams() returns then; I2 after SetSearch every live handle and a fresh one equal the form-urlencoded parse of the new query (empty after clearing); I3 other setters leave the query and the list alone; I4 all live handles show the same expected list (Get/GetAll/Has for all names in play + String); " +
		"non-trivial = the history has a SetSearch followed by a list mutation through a handle obtained before it; distinct by hash of the history",
	Gen:   Gen12,
	Check: Check12,
})
