package props

import (
	"fmt"
	"strings"

	"pgregory.net/rapid"

	"verif/harness/gen"
)

// The "ordinary web URL" grammar of C17/C18: http, https, ftp, ws or wss scheme; a host made of
// letter-digit-hyphen labels or an IPv4/IPv6 literal; optional credentials and port; path segments,
// query names/values and fragment made of RFC 3986 unreserved characters. A WebURL is the abstract
// (decoded) URL; a Spelling holds every choice of how to write it.

type WebParam struct {
	Name  string `json:"name"`
	Value string `json:"value"`
	HasEq bool   `json:"has_eq"`
}

type WebURL struct {
	Scheme   string     `json:"scheme"`
	User     string     `json:"user,omitempty"`
	Pass     string     `json:"pass,omitempty"`
	Host     string     `json:"host"`           // lowercase LDH domain, or an IPv4 / bracketed IPv6 literal in canonical form
	Port     string     `json:"port,omitempty"` // "" or a non-default port number
	Segs     []string   `json:"segs"`
	Slash    bool       `json:"slash"` // trailing slash after the last segment
	Params   []WebParam `json:"params,omitempty"`
	HasQuery bool       `json:"has_query"`
	Frag     string     `json:"frag,omitempty"`
	HasFrag  bool       `json:"has_frag"`
}

var webDefaultPort = map[string]string{"http": "80", "https": "443", "ftp": "21", "ws": "80", "wss": "443"}

// Spelling: the random choices of one rendering. Every list is indexed modulo its length, so any
// spelling applies to any WebURL (keeps shrinking sound).
type Spelling struct {
	SchemeCase []bool `json:"scheme_case,omitempty"` // flip case of scheme letter i
	HostCase   []bool `json:"host_case,omitempty"`
	PortStyle  int    `json:"port_style"` // for a default port: 0 nothing, 1 explicit default port, 2 empty port ":"
	// Enc[i] is the encoding depth (0..3) of the i-th character of path+query+fragment text;
	// Lower[i] its hex case; Partial[i] whether nested levels encode the hex digits too
	Enc   []int  `json:"enc,omitempty"`
	Lower []bool `json:"lower,omitempty"`
	// Partial[i]: what the nested levels re-encode: 0 only '%', 1 every character, 2 only the hex
	// digits (leaving a literal '%' that later levels complete), 3 only the last hex digit
	Partial []int `json:"partial,omitempty"`
	// Dots: inserted dot segments: before path segment (Pos mod (len+1)), Kind 0 "." 1 "x/..", spelled
	// with Style 0 literal, 1 "%2e", 2 "%2E", 3 nested "%252e"
	Dots []DotIns `json:"dots,omitempty"`
	// TabNL: (offset, which) pairs of tabs/newlines injected into the final text
	TabNL [][2]int `json:"tabnl,omitempty"`
	Lead  string   `json:"lead,omitempty"`  // leading C0/space
	Trail string   `json:"trail,omitempty"` // trailing C0/space
	// EmptyFrag: write a bare '#' when the URL has no fragment
	EmptyFrag bool `json:"empty_frag,omitempty"`
	// HostEnc[i] is the encoding depth of the i-th character of a domain host (letters, digits,
	// hyphens and dots are unreserved characters too); the nested levels re-encode only the '%'
	HostEnc []int `json:"host_enc,omitempty"`
}

type DotIns struct {
	Pos   int `json:"pos"`
	Kind  int `json:"kind"`
	Style int `json:"style"`
}

const unreserved = "abcdefghijklmnopqrstuvwxyzABCDEFGHIJKLMNOPQRSTUVWXYZ0123456789-._~"

func isUnreservedString(s string) bool {
	for i := 0; i < len(s); i++ {
		if !strings.ContainsRune(unreserved, rune(s[i])) {
			return false
		}
	}
	return true
}

// InGrammar tells whether the abstract URL is inside the statement's grammar (used by the check
// functions on replayed or fuzzed cases; the generator constructs only such values, except for the
// deliberately rare empty parameter name).
func (w WebURL) InGrammar() bool {
	if _, ok := webDefaultPort[w.Scheme]; !ok {
		return false
	}
	if !isUnreservedString(w.User) || !isUnreservedString(w.Pass) || !isUnreservedString(w.Frag) {
		return false
	}
	for _, s := range w.Segs {
		if !isUnreservedString(s) || s == "" {
			return false
		}
	}
	for _, p := range w.Params {
		if !isUnreservedString(p.Name) || !isUnreservedString(p.Value) {
			return false
		}
	}
	if w.Host == "" {
		return false
	}
	return true
}

func (w WebURL) hasEmptyName() bool {
	for _, p := range w.Params {
		if p.Name == "" {
			return true
		}
	}
	return false
}

type spellState struct {
	sp  *Spelling
	idx int
}

func hexByte(b byte, lower bool) string {
	s := fmt.Sprintf("%%%02X", b)
	if lower {
		s = strings.ToLower(s)
	}
	return s
}

// encodeChar writes one unreserved character at the given nesting depth.
func encodeChar(ch byte, depth int, lower bool, partial int) string {
	s := string(ch)
	for d := 0; d < depth; d++ {
		var sb strings.Builder
		for i := 0; i < len(s); i++ {
			c := s[i]
			enc := false
			switch {
			case d == 0:
				enc = true
			case partial == 1:
				enc = true
			case partial == 2:
				enc = c != '%'
			case partial == 3:
				enc = i == len(s)-1
			default:
				enc = c == '%'
			}
			if enc {
				sb.WriteString(hexByte(c, lower))
			} else {
				sb.WriteByte(c)
			}
		}
		s = sb.String()
		if len(s) > 120 {
			break
		}
	}
	return s
}

func (st *spellState) text(s string, maxDepth int) string {
	sp := st.sp
	var sb strings.Builder
	for i := 0; i < len(s); i++ {
		depth := 0
		lower, partial := false, 0
		if len(sp.Enc) > 0 {
			depth = sp.Enc[st.idx%len(sp.Enc)]
		}
		if len(sp.Lower) > 0 {
			lower = sp.Lower[st.idx%len(sp.Lower)]
		}
		if len(sp.Partial) > 0 {
			partial = sp.Partial[st.idx%len(sp.Partial)]
		}
		if depth > maxDepth {
			depth = maxDepth
		}
		st.idx++
		sb.WriteString(encodeChar(s[i], depth, lower, partial))
	}
	return sb.String()
}

func flipBy(s string, flips []bool) string {
	if len(flips) == 0 {
		return s
	}
	b := []byte(s)
	for i, c := range b {
		if flips[i%len(flips)] && (c >= 'a' && c <= 'z' || c >= 'A' && c <= 'Z') {
			b[i] = c ^ 0x20
		}
	}
	return string(b)
}

// (index 3 is the nested spelling; see usesNestedDots)
var dotStyles = [][2]string{{".", ".."}, {"%2e", "%2e%2e"}, {"%2E", ".%2E"}, {"%252e", "%252e%252E"}, {"%2E", "%2e."}, {"%2e", "%2e%2E"}, {"%2E", "%2E%2e"}, {"%2E", "%2E%2E"}, {".", "%2E."}}

// Render writes the URL in the given spelling. maxDepth limits the percent-encoding depth (0 for
// profiles that do not decode); dotMaxStyle limits how dot segments may be spelled (2 = literal and
// single-level %2e only).
func (w WebURL) Render(sp Spelling, maxDepth int, allowNestedDots bool, allowEmptyFrag bool) string {
	return w.RenderH(sp, maxDepth, 0, allowNestedDots, allowEmptyFrag)
}

// isDomainHost: not an IPv6 literal and not a dotted number (their characters are not spelled with escapes here).
func isDomainHost(h string) bool {
	if h == "" || h[0] == '[' {
		return false
	}
	for i := 0; i < len(h); i++ {
		if (h[i] < '0' || h[i] > '9') && h[i] != '.' {
			return true
		}
	}
	return false
}

// RenderH is Render with percent-encoded host characters up to depth hostDepth (1: what the standard's
// host parser decodes itself; more: what only a decoding profile with lax host parsing can read).
func (w WebURL) RenderH(sp Spelling, maxDepth, hostDepth int, allowNestedDots bool, allowEmptyFrag bool) string {
	st := &spellState{sp: &sp}
	var sb strings.Builder
	sb.WriteString(flipBy(w.Scheme, sp.SchemeCase))
	sb.WriteString("://")
	if w.User != "" || w.Pass != "" {
		sb.WriteString(w.User)
		if w.Pass != "" {
			sb.WriteString(":" + w.Pass)
		}
		sb.WriteString("@")
	}
	if host := flipBy(w.Host, sp.HostCase); hostDepth > 0 && len(sp.HostEnc) > 0 && isDomainHost(w.Host) {
		for i := 0; i < len(host); i++ {
			d := sp.HostEnc[i%len(sp.HostEnc)]
			if d > hostDepth {
				d = hostDepth
			}
			lower := len(sp.Lower) > 0 && sp.Lower[i%len(sp.Lower)]
			sb.WriteString(encodeChar(host[i], d, lower, 0))
		}
	} else {
		sb.WriteString(host)
	}
	if w.Port != "" {
		sb.WriteString(":" + w.Port)
	} else {
		switch sp.PortStyle % 3 {
		case 1:
			sb.WriteString(":" + webDefaultPort[w.Scheme])
		case 2:
			sb.WriteString(":")
		}
	}
	// path with inserted dot segments
	ins := map[int][]DotIns{}
	for _, d := range sp.Dots {
		pos := d.Pos % (len(w.Segs) + 1)
		if pos < 0 {
			pos = -pos
		}
		if pos == len(w.Segs) && len(w.Segs) > 0 && !w.Slash {
			// a dot segment at the very end leaves a trailing slash; without one in the URL the
			// insertion goes in front of the last segment instead, so that spellings stay equivalent
			pos = len(w.Segs) - 1
		}
		ins[pos] = append(ins[pos], d)
	}
	writeDots := func(pos int) {
		for _, d := range ins[pos] {
			style := d.Style % len(dotStyles)
			if style < 0 {
				style = -style
			}
			if style == 3 && !allowNestedDots {
				style = 1
			}
			if d.Kind%2 == 0 {
				sb.WriteString("/" + dotStyles[style][0])
			} else {
				sb.WriteString("/x/" + dotStyles[style][1])
			}
		}
	}
	for i, s := range w.Segs {
		writeDots(i)
		sb.WriteString("/" + st.text(s, maxDepth))
	}
	writeDots(len(w.Segs))
	if w.Slash || len(w.Segs) == 0 {
		sb.WriteString("/")
	}
	if w.HasQuery {
		sb.WriteString("?")
		for i, p := range w.Params {
			if i > 0 {
				sb.WriteString("&")
			}
			sb.WriteString(st.text(p.Name, maxDepth))
			if p.HasEq || p.Value != "" {
				sb.WriteString("=" + st.text(p.Value, maxDepth))
			}
		}
	}
	if w.HasFrag {
		sb.WriteString("#" + st.text(w.Frag, maxDepth))
	} else if sp.EmptyFrag && allowEmptyFrag {
		sb.WriteString("#")
	}
	s := sb.String()
	for _, tn := range sp.TabNL {
		pos := tn[0] % (len(s) + 1)
		if pos < 0 {
			pos = -pos
		}
		s = s[:pos] + string("\t\n\r"[((tn[1]%3)+3)%3]) + s[pos:]
	}
	return sp.Lead + s + sp.Trail
}

// ---- generators --------------------------------------------------------------------------------------

func genUnreserved(t *rapid.T, label string, min, max int) string {
	n := rapid.IntRange(min, max).Draw(t, label+".len")
	b := make([]byte, n)
	for i := range b {
		// letters and digits mostly; the four marks now and then
		k := rapid.IntRange(0, len(unreserved)+20).Draw(t, label)
		if k >= len(unreserved) {
			k = k % 36
		}
		b[i] = unreserved[k]
	}
	return string(b)
}

var webSegPool = []string{"a", "b", "index.html", "foo", "Bar", "x-y", "a_b", "~user", "v1.2", "..a", "a..", "...", "A", "0", "-"}

func genLabel(t *rapid.T, label string, first bool) string {
	n := rapid.IntRange(1, 6).Draw(t, label+".len")
	const letters = "abcdefghijklmnopqrstuvwxyz"
	const ldh = "abcdefghijklmnopqrstuvwxyz0123456789-"
	b := make([]byte, n)
	for i := range b {
		if i == 0 && first {
			b[i] = letters[rapid.IntRange(0, 25).Draw(t, label)]
		} else if i == 0 || i == n-1 {
			b[i] = ldh[rapid.IntRange(0, 35).Draw(t, label)]
		} else {
			b[i] = ldh[rapid.IntRange(0, 36).Draw(t, label)]
		}
	}
	s := string(b)
	if strings.HasPrefix(s, "xn--") {
		s = "xm" + s[2:]
	}
	return s
}

func GenWebURL(t *rapid.T) WebURL {
	var w WebURL
	w.Scheme = gen.Pick(t, "scheme", []string{"http", "https", "ftp", "ws", "wss"})
	if rapid.IntRange(0, 3).Draw(t, "creds") == 0 {
		w.User = genUnreserved(t, "user", 0, 5)
		if rapid.IntRange(0, 1).Draw(t, "haspass") == 0 {
			w.Pass = genUnreserved(t, "pass", 1, 5)
		}
	}
	switch rapid.IntRange(0, 7).Draw(t, "hostkind") {
	case 0:
		w.Host = fmt.Sprintf("%d.%d.%d.%d", rapid.IntRange(0, 255).Draw(t, "o1"), rapid.IntRange(0, 255).Draw(t, "o2"), rapid.IntRange(0, 255).Draw(t, "o3"), rapid.IntRange(0, 255).Draw(t, "o4"))
	case 1:
		var v [8]uint16
		for i := range v {
			if rapid.IntRange(0, 1).Draw(t, "zero") == 1 {
				v[i] = uint16(rapid.IntRange(1, 0xffff).Draw(t, "piece"))
			}
		}
		w.Host = "[" + canonicalIPv6(v) + "]"
	default:
		n := rapid.IntRange(1, 4).Draw(t, "labels")
		var labels []string
		for i := 0; i < n; i++ {
			labels = append(labels, genLabel(t, "label", i == n-1))
		}
		w.Host = strings.Join(labels, ".")
	}
	switch rapid.IntRange(0, 3).Draw(t, "port") {
	case 0:
		p := gen.Pick(t, "portnum", []string{"8080", "81", "1", "65535", "8443", "444", "22"})
		if p != webDefaultPort[w.Scheme] {
			w.Port = p
		}
	}
	ns := rapid.IntRange(0, 5).Draw(t, "nsegs")
	for i := 0; i < ns; i++ {
		if rapid.IntRange(0, 2).Draw(t, "segpool") == 0 {
			w.Segs = append(w.Segs, gen.Pick(t, "seg", webSegPool))
		} else {
			w.Segs = append(w.Segs, genUnreserved(t, "seg", 1, 6))
		}
	}
	w.Slash = rapid.IntRange(0, 2).Draw(t, "slash") == 0
	if rapid.IntRange(0, 1).Draw(t, "hasquery") == 0 {
		w.HasQuery = true
		np := rapid.IntRange(0, 4).Draw(t, "nparams")
		for i := 0; i < np; i++ {
			p := WebParam{Name: genUnreserved(t, "pname", 1, 4)}
			if rapid.IntRange(0, 39).Draw(t, "emptyname") == 0 {
				p.Name = "" // outside the grammar's reading "names are non-empty": exercises KF-C17-empty-pair
			}
			if rapid.IntRange(0, 3).Draw(t, "hasvalue") != 0 {
				p.HasEq = true
				p.Value = genUnreserved(t, "pvalue", 0, 4)
			}
			w.Params = append(w.Params, p)
		}
	}
	if rapid.IntRange(0, 2).Draw(t, "hasfrag") == 0 {
		w.HasFrag = true
		w.Frag = genUnreserved(t, "frag", 0, 5)
	}
	return w
}

func GenSpelling(t *rapid.T, label string, rich bool) Spelling {
	var sp Spelling
	bools := func(l string, n int) []bool {
		out := make([]bool, n)
		for i := range out {
			out[i] = rapid.IntRange(0, 2).Draw(t, label+l) == 0
		}
		return out
	}
	if rapid.IntRange(0, 1).Draw(t, label+".case") == 0 {
		sp.SchemeCase = bools(".schemecase", 5)
		sp.HostCase = bools(".hostcase", 7)
	}
	sp.PortStyle = rapid.IntRange(0, 2).Draw(t, label+".portstyle")
	if rich && rapid.IntRange(0, 3).Draw(t, label+".encode") != 0 {
		n := rapid.IntRange(1, 9).Draw(t, label+".encn")
		for i := 0; i < n; i++ {
			d := 0
			if rapid.IntRange(0, 2).Draw(t, label+".enc?") == 0 {
				d = rapid.IntRange(1, 3).Draw(t, label+".depth")
			}
			sp.Enc = append(sp.Enc, d)
		}
		if rapid.IntRange(0, 2).Draw(t, label+".hostenc") == 0 {
			for i, n := 0, rapid.IntRange(1, 7).Draw(t, label+".hostencn"); i < n; i++ {
				d := 0
				if rapid.IntRange(0, 2).Draw(t, label+".hostenc?") == 0 {
					d = rapid.IntRange(1, 3).Draw(t, label+".hostdepth")
				}
				sp.HostEnc = append(sp.HostEnc, d)
			}
		}
		sp.Lower = bools(".lower", 5)
		sp.Partial = make([]int, 4)
		for i := range sp.Partial {
			if rapid.IntRange(0, 3).Draw(t, label+".partial?") == 0 {
				sp.Partial[i] = rapid.IntRange(1, 3).Draw(t, label+".partial")
			}
		}
		// now and then one very deep nesting (the statement puts no bound on it)
		if rapid.IntRange(0, 7).Draw(t, label+".deep") == 0 {
			sp.Enc[rapid.IntRange(0, len(sp.Enc)-1).Draw(t, label+".deepat")] = rapid.IntRange(4, 16).Draw(t, label+".deepdepth")
		}
	}
	nd := rapid.IntRange(0, 2).Draw(t, label+".ndots")
	for i := 0; i < nd; i++ {
		sp.Dots = append(sp.Dots, DotIns{Pos: rapid.IntRange(0, 5).Draw(t, label+".dotpos"), Kind: rapid.IntRange(0, 1).Draw(t, label+".dotkind"), Style: rapid.IntRange(0, len(dotStyles)-1).Draw(t, label+".dotstyle")})
	}
	nt := rapid.IntRange(0, 2).Draw(t, label+".ntab")
	for i := 0; i < nt; i++ {
		sp.TabNL = append(sp.TabNL, [2]int{rapid.IntRange(0, 80).Draw(t, label+".tabpos"), rapid.IntRange(0, 2).Draw(t, label+".tabkind")})
	}
	if rapid.IntRange(0, 3).Draw(t, label+".lead") == 0 {
		sp.Lead = gen.Pick(t, label+".leadv", []string{" ", "\t", "\n ", "\x00", "\x1f ", "  "})
	}
	if rapid.IntRange(0, 3).Draw(t, label+".trail") == 0 {
		sp.Trail = gen.Pick(t, label+".trailv", []string{" ", "\n", " \t", "\x00", "\x0c"})
	}
	sp.EmptyFrag = rapid.IntRange(0, 2).Draw(t, label+".emptyfrag") == 0
	return sp
}
