package props

import (
	"fmt"
	"strconv"
	"strings"
	"unicode/utf8"

	"github.com/nlnwa/whatwg-url/canonicalizer"
	"github.com/nlnwa/whatwg-url/url"
	"pgregory.net/rapid"

	"verif/harness/core"
	"verif/harness/gen"
	"verif/harness/spec"
)

// C10 — percent-encode sets match the standard; encode/decode obey their laws.

type namedSet struct {
	Name string
	Set  *url.PercentEncodeSet
	Std  spec.Set // table from the standard; nil for the repository's own sets
}

// NamedSets: the six sets of the statement (with the standard's table) and the repository's other
// exported sets (no table in the standard: immutability fingerprints only).
var NamedSets = []namedSet{
	{"C0PercentEncodeSet", url.C0PercentEncodeSet, spec.SetC0Control},
	{"FragmentPercentEncodeSet", url.FragmentPercentEncodeSet, spec.SetFragment},
	{"QueryPercentEncodeSet", url.QueryPercentEncodeSet, spec.SetQuery},
	{"SpecialQueryPercentEncodeSet", url.SpecialQueryPercentEncodeSet, spec.SetSpecialQuery},
	{"PathPercentEncodeSet", url.PathPercentEncodeSet, spec.SetPath},
	{"UserInfoPercentEncodeSet", url.UserInfoPercentEncodeSet, spec.SetUserinfo},
	{"C0OrSpacePercentEncodeSet", url.C0OrSpacePercentEncodeSet, nil},
	{"HostPercentEncodeSet", url.HostPercentEncodeSet, nil},
	{"canonicalizer.LaxPathPercentEncodeSet", canonicalizer.LaxPathPercentEncodeSet, nil},
	{"canonicalizer.LaxQueryPercentEncodeSet", canonicalizer.LaxQueryPercentEncodeSet, nil},
	{"canonicalizer.RepeatedQueryPercentDecodeSet", canonicalizer.RepeatedQueryPercentDecodeSet, nil},
}

// fingerprint of a set: membership of 0..0x100 by rune and by byte.
func setFingerprint(s *url.PercentEncodeSet) string {
	var sb strings.Builder
	for c := 0; c <= 0x100; c++ {
		if s.RuneShouldBeEncoded(rune(c)) {
			sb.WriteByte('1')
		} else {
			sb.WriteByte('0')
		}
		if c < 0x100 {
			if s.ByteShouldBeEncoded(byte(c)) {
				sb.WriteByte('1')
			} else {
				sb.WriteByte('0')
			}
		}
	}
	return sb.String()
}

var pristineFingerprints = func() []string {
	out := make([]string, len(NamedSets))
	for i, ns := range NamedSets {
		out[i] = setFingerprint(ns.Set)
	}
	return out
}()

// namedSetsUnchanged compares every named set with its fingerprint at start-up.
func namedSetsUnchanged() string {
	for i, ns := range NamedSets {
		if setFingerprint(ns.Set) != pristineFingerprints[i] {
			return ns.Name + " was modified after initialisation"
		}
	}
	return ""
}

// Tables10 is the exhaustive part: every code point (surrogates skipped) and every byte against the
// standard's table, for the six sets of the statement.
func Tables10() (int64, string) {
	var n int64
	for _, ns := range NamedSets {
		if ns.Std == nil {
			continue
		}
		for r := rune(0); r <= 0x10FFFF; r++ {
			if r >= 0xD800 && r <= 0xDFFF {
				continue
			}
			n++
			if got, want := ns.Set.RuneShouldBeEncoded(r), ns.Std(r); got != want {
				return n, fmt.Sprintf("%s.RuneShouldBeEncoded(U+%04X %q) = %v, the standard's set says %v", ns.Name, r, r, got, want)
			}
		}
		for b := 0; b < 256; b++ {
			n++
			want := b >= 0x80 || ns.Std(rune(b))
			if got := ns.Set.ByteShouldBeEncoded(byte(b)); got != want {
				return n, fmt.Sprintf("%s.ByteShouldBeEncoded(0x%02X) = %v, the standard's set says %v", ns.Name, b, got, want)
			}
		}
	}
	return n, ""
}

// Components10: every ASCII code point placed in every component of a special and a non-special
// URL must come out escaped or literal exactly as the component's set says (a set that is right but
// not used where it should be). The expectation is the reference model's parse of the same input.
func Components10() (int64, string) {
	var n int64
	templates := []string{
		"http://%s@h/", "http://u:%s@h/", "http://h/%s", "http://h/?%s", "http://h/#%s", "http://h/p?q#%s", "http://h/a%sb/c", "http://h/?a=%s&b",
		"foo://%s@h/", "foo://u:%s@h/", "foo://h/%s", "foo://h/?%s", "foo://h/#%s", "foo:%s", "foo:a%sb?q", "foo://%s/", "foo:/%s", "file:///%s", "file:///?%s", "wss://h/%s?%s#%s",
	}
	for _, tpl := range templates {
		for c := 0; c < 0x80; c++ {
			in := strings.ReplaceAll(tpl, "%s", string(rune(c)))
			n++
			mu, mok := Model.Parse(in, nil)
			iu, err := url.Parse(in)
			if mok != (err == nil) {
				return n, fmt.Sprintf("%s: implementation err=%v, the standard's parser ok=%v", quote(in), err, mok)
			}
			if mok {
				if d := DiffObs(ObsOf(iu), mu.Obs()); d != "" {
					return n, fmt.Sprintf("%s: %s", quote(in), d)
				}
			}
		}
	}
	return n, ""
}

// ---- part 2: copy-on-derive ------------------------------------------------------------------

type SetRecipe struct {
	Base     int       `json:"base"`      // index into NamedSets, or -1 for NewPercentEncodeSet(AllBelow, Init...)
	AllBelow int32     `json:"all_below"` // only for Base == -1
	Init     []uint    `json:"init,omitempty"`
	Steps    []SetStep `json:"steps"`
}

type SetStep struct {
	Clear bool   `json:"clear"`
	Bytes []uint `json:"bytes"`
}

func (sr SetRecipe) start() *url.PercentEncodeSet {
	if sr.Base >= 0 && sr.Base < len(NamedSets) {
		return NamedSets[sr.Base].Set
	}
	return url.NewPercentEncodeSet(sr.AllBelow, sr.Init...)
}

// build applies the steps and returns the whole chain.
func (sr SetRecipe) build() []*url.PercentEncodeSet {
	chain := []*url.PercentEncodeSet{sr.start()}
	for _, st := range sr.Steps {
		cur := chain[len(chain)-1]
		if st.Clear {
			chain = append(chain, cur.Clear(st.Bytes...))
		} else {
			chain = append(chain, cur.Set(st.Bytes...))
		}
	}
	return chain
}

// namedFingerprints snapshots all named sets (per-case baseline: a set corrupted by an earlier case
// must not make every later case fail, or the shrunk replay would blame an innocent case).
func namedFingerprints() []string {
	out := make([]string, len(NamedSets))
	for i, ns := range NamedSets {
		out[i] = setFingerprint(ns.Set)
	}
	return out
}

func namedSetsChangedSince(before []string) string {
	for i, ns := range NamedSets {
		if setFingerprint(ns.Set) != before[i] {
			return ns.Name + " was modified"
		}
	}
	return ""
}

func Check10Derive(sr SetRecipe, r *core.Rec) {
	baseline := namedFingerprints()
	chain := []*url.PercentEncodeSet{sr.start()}
	prints := []string{setFingerprint(chain[0])}
	for i, st := range sr.Steps {
		parent := chain[len(chain)-1]
		var derived *url.PercentEncodeSet
		if st.Clear {
			derived = parent.Clear(st.Bytes...)
			r.Class("derive:clear")
		} else {
			derived = parent.Set(st.Bytes...)
			r.Class("derive:set")
		}
		// every earlier set in the chain and all named sets are unchanged
		for j, s := range chain {
			if setFingerprint(s) != prints[j] {
				r.Failf("derivation step %d (%+v) altered set number %d of the chain it was derived from", i, st, j)
				return
			}
		}
		if msg := namedSetsChangedSince(baseline); msg != "" {
			r.Failf("derivation step %d (%+v): %s", i, st, msg)
			return
		}
		// the derived set differs from its parent exactly on the given bytes
		in := map[uint]bool{}
		for _, b := range st.Bytes {
			in[b] = true
		}
		for c := rune(0); c <= 0x100; c++ {
			p, d := parent.RuneShouldBeEncoded(c), derived.RuneShouldBeEncoded(c)
			want := p
			if in[uint(c)] {
				if st.Clear {
					// cleared bytes leave the bit set; code points below allBelow or above 0x7E stay members
					want = setFloor(sr, c)
				} else {
					want = true
				}
			}
			if d != want {
				r.Failf("derivation step %d (%+v): membership of U+%04X is %v, expected %v (parent %v)", i, st, c, d, want, p)
				return
			}
		}
		if len(st.Bytes) > 0 {
			r.NT()
		}
		chain = append(chain, derived)
		prints = append(prints, setFingerprint(derived))
	}
}

// setFloor: membership that no Clear can remove (below allBelow, above 0x7E).
func setFloor(sr SetRecipe, c rune) bool {
	if c > 0x7E {
		return true
	}
	// allBelow of the chain's root: probe the root with a cleared copy
	root := sr.start()
	return root.Clear(uint(c)).RuneShouldBeEncoded(c)
}

func genBytes(t *rapid.T, label string) []uint {
	n := rapid.IntRange(0, 4).Draw(t, label+".n")
	out := make([]uint, n)
	for i := range out {
		if rapid.IntRange(0, 9).Draw(t, label+".big") == 0 {
			out[i] = uint(rapid.IntRange(0x80, 300).Draw(t, label))
		} else {
			out[i] = uint(rapid.IntRange(0, 0x7f).Draw(t, label))
		}
	}
	return out
}

func GenRecipe(t *rapid.T, maxSteps int) SetRecipe {
	var sr SetRecipe
	if rapid.IntRange(0, 3).Draw(t, "fresh") == 0 {
		sr.Base = -1
		sr.AllBelow = int32(rapid.IntRange(0, 0x40).Draw(t, "allBelow"))
		sr.Init = genBytes(t, "init")
	} else {
		sr.Base = rapid.IntRange(0, len(NamedSets)-1).Draw(t, "base")
	}
	n := rapid.IntRange(0, maxSteps).Draw(t, "steps")
	for i := 0; i < n; i++ {
		sr.Steps = append(sr.Steps, SetStep{Clear: rapid.IntRange(0, 1).Draw(t, "clear") == 1, Bytes: genBytes(t, "bytes")})
	}
	return sr
}

var P10d = core.Register(core.Prop[SetRecipe]{
	ID: "C10.derive",
	Rule: "derivation programs: a named set or NewPercentEncodeSet(allBelow, bytes...) followed by 0..6 Set/Clear calls with 0..4 byte arguments (0..0x7F, a tenth up to 300); after every derivation the membership fingerprint (0..0x100 by rune and by byte) of every earlier set in the chain and of all eleven named sets is unchanged, and the derived set differs from its parent exactly on the given bytes; " +
		"non-trivial = at least one derivation with a non-empty argument list; distinct by hash of the program",
	Gen:   func(t *rapid.T) SetRecipe { return GenRecipe(t, 6) },
	Check: Check10Derive,
})

// ---- part 3: string laws ------------------------------------------------------------------------

type Case10s struct {
	S   B         `json:"s"`
	Set SetRecipe `json:"set"`
}

func modelEncode(s string, member func(rune) bool) string {
	var sb strings.Builder
	for _, r := range []rune(s) { // invalid bytes read as U+FFFD, as the API does
		if member(r) {
			var buf [4]byte
			n := utf8.EncodeRune(buf[:], r)
			for i := 0; i < n; i++ {
				fmt.Fprintf(&sb, "%%%02X", buf[i])
			}
		} else {
			sb.WriteRune(r)
		}
	}
	return sb.String()
}

func Check10Strings(c Case10s, r *core.Rec) {
	baseline := namedFingerprints()
	chain := c.Set.build()
	set := chain[len(chain)-1]
	s := string(c.S)
	member := set.RuneShouldBeEncoded
	E := func(x string) string { return DefaultParser.PercentEncodeString(x, set) }
	Dec := DefaultParser.(decoder).DecodePercentEncoded

	hasMember, hasNon, hasPct := false, false, strings.Contains(s, "%")
	for _, ch := range []rune(s) {
		if member(ch) {
			hasMember = true
		} else {
			hasNon = true
		}
	}
	if hasMember && hasNon && hasPct {
		r.NT()
	}
	pctIn := member('%')
	hexIn := false
	for _, h := range "0123456789abcdefABCDEF" {
		if member(h) {
			hexIn = true
		}
	}
	if c.Set.Base >= 0 && len(c.Set.Steps) == 0 {
		r.Class("set:" + NamedSets[c.Set.Base].Name)
	} else {
		r.Class("set:derived")
	}
	valid := utf8.ValidString(s)
	scalar := string([]rune(s))

	e := E(s)
	// encoding equals the model: members -> uppercase %XX of the UTF-8 bytes, the rest untouched
	if want := modelEncode(s, member); e != want {
		r.Failf("PercentEncodeString(%s) = %s, expected %s", quote(s), quote(e), quote(want))
		return
	}
	// no member is left unescaped (anything that is a member in the output must come from an escape we wrote)
	if !pctIn && !hexIn {
		for _, ch := range e {
			if member(ch) {
				r.Failf("PercentEncodeString(%s) = %s leaves %q of the set unescaped", quote(s), quote(e), ch)
				return
			}
		}
		// idempotent
		if ee := E(e); ee != e {
			r.Failf("PercentEncodeString is not idempotent on %s: once %s, twice %s", quote(s), quote(e), quote(ee))
			return
		}
		r.Class("law:idempotent")
	}
	// decoding agrees with the standard's percent-decode
	d := Dec(s)
	if want := string(spec.PercentDecode(s)); d != want {
		r.Failf("DecodePercentEncoded(%s) = %s, the standard's percent-decode gives %s", quote(s), quote(d), quote(want))
		return
	}
	if !hasValidEscape(s) {
		if d != s {
			r.Failf("DecodePercentEncoded changed %s, which contains no valid escape, into %s", quote(s), quote(d))
			return
		}
		r.Class("law:decode-noop")
	}
	if pctIn {
		// decoding inverts encoding (on the scalar-value reading of s)
		if got := Dec(e); got != scalar {
			r.Failf("'%%' is in the set but DecodePercentEncoded(PercentEncodeString(%s)) = %s", quote(s), quote(got))
			return
		}
		r.Class("law:decode-inverts")
	} else if !hexIn && valid {
		if got, want := Dec(e), Dec(s); got != want {
			r.Failf("'%%' is not in the set but decoding the encoded string gives %s and decoding the original %s (s = %s)", quote(got), quote(want), quote(s))
			return
		}
		r.Class("law:decode-commutes")
	}
	if msg := namedSetsChangedSince(baseline); msg != "" {
		r.Failf("encoding / decoding %s with a derived set: %s", quote(s), msg)
		return
	}
	// the same law observed at a parsed component that has an encoder of its own (url/hostparser.go):
	// a lax-host parser "returns the host as is" when its percent-decoding is not UTF-8, escaping what
	// a host cannot hold — so decoding what it returns gives the bytes that decoding the host text as
	// written gives ('%' is not in that set). ASCII letter case is not compared.
	h := strings.Map(func(ch rune) rune {
		if strings.ContainsRune("/\\?#@:[]\t\n\r", ch) {
			return -1
		}
		return ch
	}, scalar)
	if h != "" && !utf8.ValidString(Dec(h)) {
		if u, err := laxHostParser.Parse("http://" + h + "/x"); err == nil && u != nil {
			r.Class("law:lax-host-decode-commutes")
			if got, want := Dec(u.Hostname()), Dec(h); asciiLower(got) != asciiLower(want) {
				r.Failf("lax host parsing: the host %s is returned as %s, which decodes to %s; the host as written decodes to %s", quote(h), quote(u.Hostname()), quote(got), quote(want))
			}
		}
	}
}

var laxHostParser = url.NewParser(url.WithLaxHostParsing())

func asciiLower(s string) string {
	b := []byte(s)
	for i, c := range b {
		if c >= 'A' && c <= 'Z' {
			b[i] = c + 32
		}
	}
	return string(b)
}

func hasValidEscape(s string) bool {
	for i := 0; i+2 < len(s); i++ {
		if s[i] == '%' && isHexByte(s[i+1]) && isHexByte(s[i+2]) {
			return true
		}
	}
	return false
}

func isHexByte(c byte) bool {
	return c >= '0' && c <= '9' || c >= 'a' && c <= 'f' || c >= 'A' && c <= 'F'
}

var c10Atoms = []string{"%", "%", "%41", "%2f", "%2F", "%zz", "%4", "%%", "%25", "%C3%A9", "%ff", "%FF", " ", "\"", "#", "<", ">", "?", "`", "{", "}", "'", "/", ":", ";", "=", "@", "[", "\\", "]", "^", "|", "~", "\x00", "\x1f", "\x7f",
	"a", "Z", "0", "9", "f", "F", "-", ".", "_", "é", "日", "💩", " ", "\xff", "\xc3", "\xe2\x82", "+", "&", "$", ",", "!", "*", "(", ")"}

func Gen10s(t *rapid.T) Case10s {
	var c Case10s
	if rapid.IntRange(0, 2).Draw(t, "named") != 0 {
		c.Set = SetRecipe{Base: rapid.IntRange(0, len(NamedSets)-1).Draw(t, "base")}
		if rapid.IntRange(0, 3).Draw(t, "pct") == 0 {
			c.Set.Steps = []SetStep{{Bytes: []uint{'%'}}}
		}
	} else {
		c.Set = GenRecipe(t, 3)
	}
	switch k := rapid.IntRange(0, 199).Draw(t, "skind"); {
	case k == 199:
		// long strings: a 0..3 byte offset, then a multi-byte (or escape) unit repeated up to and
		// across the sizes at which an implementation may work block by block
		unit := gen.Pick(t, "lunit", []string{"é", "💩", "a", "%41", "\xff", "é%41", "日"})
		target := gen.Pick(t, "lsize", []string{"1024", "2048", "4096", "8192"})
		n, _ := strconv.Atoi(target)
		reps := n/len(unit) + rapid.IntRange(-1, 2).Draw(t, "lreps")
		c.S = B(strings.Repeat("a", rapid.IntRange(0, 3).Draw(t, "loff")) + strings.Repeat(unit, reps))
	case k%5 == 0:
		c.S = B(gen.Any(t, "s"))
	default:
		n := rapid.IntRange(0, 10).Draw(t, "n")
		var sb strings.Builder
		for i := 0; i < n; i++ {
			sb.WriteString(gen.Pick(t, "atom", c10Atoms))
		}
		c.S = B(sb.String())
	}
	return c
}

var P10s = core.Register(core.Prop[Case10s]{
	ID: "C10.strings",
	Rule: "strings (ASCII-heavy atoms with '%', valid / truncated / non-hex escapes, every set-edge character, non-ASCII, invalid UTF-8; a fifth arbitrary) x sets (named, named + '%', or derived by a random program); " +
		"oracle: PercentEncodeString equals the model encoding (members -> uppercase %XX of the UTF-8 bytes, everything else untouched); no member left unescaped and idempotent (sets without '%' and hex digits); DecodePercentEncoded equals the standard's percent-decode and is the identity without a valid escape; '%' in the set => decode inverts encode; '%' (and hex digits) not in the set => decode(encode(s)) = decode(s); invalid bytes compared modulo the U+FFFD substitution the API performs; the last law is also observed at a parsed component with an encoder of its own: a lax-host parser's Hostname() for a host whose decoding is not UTF-8 decodes to what the host as written decodes to (ASCII case aside); " +
		"non-trivial = the string contains a member, a non-member and a '%'; distinct by hash of (string, set recipe)",
	Gen:   Gen10s,
	Check: Check10Strings,
})

// Enum10 makes the exhaustive part replayable: the case carries nothing, the check enumerates.
type Enum struct {
	Note string `json:"note,omitempty"`
}

var P10t = core.Register(core.Prop[Enum]{
	ID:   "C10.tables",
	Rule: "exhaustive: all 0x110000 code points (surrogates skipped) and all 256 bytes x the six named sets of the statement against tables written from the standard's definitions",
	Gen:  func(t *rapid.T) Enum { return Enum{} },
	Check: func(_ Enum, r *core.Rec) {
		if _, msg := Tables10(); msg != "" {
			r.Failf("%s", msg)
		}
	},
})

var P10c = core.Register(core.Prop[Enum]{
	ID:   "C10.components",
	Rule: "exhaustive: every ASCII code point placed in every component (userinfo, path, opaque path, opaque host, query, fragment) of special and non-special URL templates, compared with the reference model's parse",
	Gen:  func(t *rapid.T) Enum { return Enum{} },
	Check: func(_ Enum, r *core.Rec) {
		if _, msg := Components10(); msg != "" {
			r.Failf("%s", msg)
		}
	},
})
