package props

import (
	"pgregory.net/rapid"

	"verif/harness/core"
	"verif/harness/spec"
)

// C05 — setters implement the standard's API setter algorithms (lock-step differential).

func Check05(c CaseHist, r *core.Rec) {
	var tr spec.Trace
	mu, mok, _ := modelParse(Model, c.start(), &tr)
	iu, err := implStart(c)
	if !mok || err != nil || iu == nil {
		r.Vacuous() // start does not parse (agreement about that is C01's business)
		return
	}
	if d := DiffObs(ObsOf(iu), mu.Obs()); d != "" {
		r.Vacuous() // C01's business
		return
	}
	changed, rejected := 0, 0
	prevSetter := -1
	for i, op := range c.Ops {
		if op.Kind == "clone" {
			// the history continues on a Clone (a copy: the model's URL stays what it is)
			iu = iu.Clone()
			r.Class("op:clone")
			if c.Blind {
				continue
			}
			if d := DiffObs(ObsOf(iu), mu.Obs()); d != "" {
				r.Failf("after %s: %s", histString(c, i), d)
				return
			}
			continue
		}
		if op.Kind != "set" {
			continue
		}
		before := mu.Href()
		val := valueFor(iu, op)
		out := Model.Set(mu, op.Setter, val)
		ApplySetter(iu, op.Setter, val)
		oc := string(out)
		r.Class("setter:" + spec.SetterNames[op.Setter] + ":" + oc)
		if prevSetter >= 0 {
			r.Class("pair:" + spec.SetterNames[prevSetter] + ">" + spec.SetterNames[op.Setter])
		}
		prevSetter = op.Setter
		if mu.Href() != before {
			changed++
		}
		if oc != "end" && oc != "cleared" && oc != "ret:scheme-set" && oc != "ret:host-set" && oc != "ret:port-done" && oc != "ret:filehost-set" {
			rejected++
		}
		if c.Blind && i < len(c.Ops)-1 {
			continue // looked at only after the last step
		}
		if d := DiffObs(ObsOf(iu), mu.Obs()); d != "" {
			r.Failf("after %s (model outcome %s): %s", histString(c, i), oc, d)
			return
		}
	}
	if c.Blind {
		r.Class("blind-history")
		if d := DiffObs(ObsOf(iu), mu.Obs()); d != "" {
			r.Failf("after %s: %s", histString(c, len(c.Ops)-1), d)
			return
		}
	}
	if len(c.Ops) >= 2 && changed >= 1 && rejected >= 1 {
		r.NT()
	}
}

func Gen05(t *rapid.T) CaseHist {
	c := genHistory(t, histOpts{maxOps: 8, start: "setter", clone: true, blind: true})
	if len(c.Ops) == 0 {
		c.Ops = append(c.Ops, Op{Kind: "set", Setter: rapid.IntRange(0, spec.NumSetters-1).Draw(t, "setter0"), Value: ""})
	}
	return c
}

var P05 = core.Register(core.Prop[CaseHist]{
	ID: "C05",
	Rule: "a start URL (WPT hrefs 45% / grammar 35% / structurally extreme starts 20%) followed by 1..8 (setter, value) steps with values from per-setter pools, WPT new_values, other setters' pools, token soup and arbitrary strings (one step in twelve continues on a Clone of the URL instead, the model's URL staying what it is; in a quarter of the histories nothing is read from the URL between the steps and the comparison is made after the last one only); " +
		"oracle: the same step applied to the reference model's setter algorithms, Href + 9 getters compared after every step; " +
		"non-trivial = at least 2 steps of which at least one changed the model's serialization and at least one was rejected or only partially applied (guard, failure or override-specific early return); distinct by hash of the whole history",
	Gen:   Gen05,
	Check: Check05,
})
