package props

import (
	"github.com/nlnwa/whatwg-url/url"
	"pgregory.net/rapid"

	"verif/harness/gen"
	"verif/harness/spec"
)

// Op is one step of a history on a URL value.
//
//	set:     call setter number Setter with Value
//	resolve: u = u.Parse(Value); a failing resolution leaves u unchanged
//	clone:   u = u.Clone() and continue on the clone
type Op struct {
	Kind   string `json:"op"`
	Setter int    `json:"setter,omitempty"`
	Value  B      `json:"value"`
	// Cur: the setter is called with exactly what the corresponding getter returns at that moment
	// (SetHost(u.Host()), SetHash(u.Hash()), …) instead of Value
	Cur bool `json:"cur,omitempty"`
}

// valueFor returns the value a set operation passes: Value, or the current getter's result.
func valueFor(u *url.Url, op Op) string {
	if !op.Cur {
		return string(op.Value)
	}
	switch op.Setter {
	case spec.SetterProtocol:
		return u.Protocol()
	case spec.SetterUsername:
		return u.Username()
	case spec.SetterPassword:
		return u.Password()
	case spec.SetterHost:
		return u.Host()
	case spec.SetterHostname:
		return u.Hostname()
	case spec.SetterPort:
		return u.Port()
	case spec.SetterPathname:
		return u.Pathname()
	case spec.SetterSearch:
		return u.Search()
	case spec.SetterHash:
		return u.Hash()
	}
	return string(op.Value)
}

func (o Op) String() string {
	switch o.Kind {
	case "set":
		if o.Cur {
			return spec.SetterNames[o.Setter] + "=<its current value>"
		}
		return spec.SetterNames[o.Setter] + "=" + quote(string(o.Value))
	case "resolve":
		return "resolve(" + quote(string(o.Value)) + ")"
	}
	return o.Kind
}

// CaseHist is a start URL (input parsed against an optional base) followed by a history.
type CaseHist struct {
	Input   B    `json:"input"`
	Base    B    `json:"base"`
	HasBase bool `json:"has_base"`
	Ops     []Op `json:"ops"`
	// Blind: nothing is read from the URL between the steps (no getter, no serialization); the
	// oracle looks at the end only. Observing after every step would fill every lazily computed or
	// cached value before the next step runs — a step that relies on such a value having been
	// filled is only visible when nobody looked in between.
	Blind bool `json:"blind,omitempty"`
}

func (c CaseHist) start() Case01 { return Case01{Input: c.Input, Base: c.Base, HasBase: c.HasBase} }

// implStart parses the start URL with the default parser.
func implStart(c CaseHist) (*url.Url, error) {
	if c.HasBase {
		return url.ParseRef(string(c.Base), string(c.Input))
	}
	return url.Parse(string(c.Input))
}

type histOpts struct {
	maxOps  int
	resolve bool
	clone   bool
	blind   bool
	// start: "setter" = WPT hrefs / grammar / extreme starts without base; "pair" = C01's (input, base)
	start string
}

func genHistory(t *rapid.T, o histOpts) CaseHist {
	var c CaseHist
	if o.start == "pair" && rapid.IntRange(0, 2).Draw(t, "startKind") == 0 {
		in, base, has := gen.InputWithBase(t)
		c.Input, c.Base, c.HasBase = B(in), B(base), has
	} else {
		c.Input = B(gen.StartURL(t, "start"))
	}
	n := rapid.IntRange(0, o.maxOps).Draw(t, "nops")
	for i := 0; i < n; i++ {
		k := rapid.IntRange(0, 11).Draw(t, "opkind")
		switch {
		case o.resolve && k == 10:
			c.Ops = append(c.Ops, Op{Kind: "resolve", Value: B(gen.Ref(t, "ref", ""))})
		case o.clone && k == 11:
			c.Ops = append(c.Ops, Op{Kind: "clone"})
		default:
			which := rapid.IntRange(0, spec.NumSetters-1).Draw(t, "setter")
			if rapid.IntRange(0, 11).Draw(t, "cur") == 0 {
				c.Ops = append(c.Ops, Op{Kind: "set", Setter: which, Cur: true})
			} else {
				c.Ops = append(c.Ops, Op{Kind: "set", Setter: which, Value: B(gen.SetterValue(t, "value", which))})
			}
		}
	}
	if o.blind {
		// (drawn last: the draws above are the same with and without this option)
		c.Blind = rapid.IntRange(0, 3).Draw(t, "blind") == 0
		if c.Blind {
			for i := range c.Ops {
				c.Ops[i].Cur = false // a "current value" argument would be a read
			}
		}
	}
	return c
}

func quote(s string) string {
	const hex = "0123456789abcdef"
	out := make([]byte, 0, len(s)+2)
	out = append(out, '"')
	for i := 0; i < len(s); i++ {
		c := s[i]
		if c < 0x20 || c == 0x7f || c == '"' || c == '\\' || c >= 0x80 && !validAt(s, i) {
			out = append(out, '\\', 'x', hex[c>>4], hex[c&15])
		} else {
			out = append(out, c)
		}
	}
	return string(append(out, '"'))
}

func validAt(s string, i int) bool {
	// true if byte i belongs to a valid multi-byte sequence (crude: check by decoding around it)
	for j := i; j >= 0 && j > i-4; j-- {
		if s[j]&0xC0 != 0x80 {
			r := []rune(s[j:])
			return len(r) > 0 && r[0] != 0xFFFD && j+len(string(r[0])) > i
		}
	}
	return false
}

func histString(c CaseHist, upto int) string {
	s := quote(string(c.Input))
	if c.Blind {
		s = "[nothing read between the steps] " + s
	}
	if c.HasBase {
		s += " base=" + quote(string(c.Base))
	}
	for i := 0; i <= upto && i < len(c.Ops); i++ {
		s += " ; " + c.Ops[i].String()
	}
	return s
}
