package props

import (
	"fmt"
	"strings"

	"github.com/nlnwa/whatwg-url/url"
	"pgregory.net/rapid"

	"verif/harness/core"
	"verif/harness/gen"
	"verif/harness/spec"
)

// C09 — domain hosts are normalised consistently (ASCII, case, escapes).

type Case09 struct {
	Decoded B      `json:"decoded"` // the decoded host D
	Scheme  string `json:"scheme"`
	// Flip[i] tells whether ASCII letter number i of D is case-flipped in spellings 1 and 3;
	// Esc[i] whether code point number i is written as %XX… in spellings 2 and 3; Lower[i] hex case.
	Flip  []bool `json:"flip"`
	Esc   []bool `json:"esc"`
	Lower []bool `json:"lower"`
}

func spell(c Case09, flip, esc bool) string {
	var sb strings.Builder
	letter := 0
	for i, r := range []rune(string(c.Decoded)) {
		ch := r
		if (r >= 'a' && r <= 'z') || (r >= 'A' && r <= 'Z') {
			if flip && letter < len(c.Flip) && c.Flip[letter] {
				ch = r ^ 0x20
			}
			letter++
		}
		if esc && i < len(c.Esc) && c.Esc[i] {
			for _, b := range []byte(string(ch)) {
				h := fmt.Sprintf("%%%02X", b)
				if i < len(c.Lower) && c.Lower[i] {
					h = strings.ToLower(h)
				}
				sb.WriteString(h)
			}
		} else {
			sb.WriteRune(ch)
		}
	}
	return sb.String()
}

func isPureASCII(s string) bool {
	for i := 0; i < len(s); i++ {
		if s[i] >= 0x80 {
			return false
		}
	}
	return true
}

func Check09(c Case09, r *core.Rec) {
	D := string(c.Decoded)
	if c.Scheme == "file" && len(D) == 2 && (D[0]|0x20) >= 'a' && (D[0]|0x20) <= 'z' && D[1] == '|' {
		// "file://C|/" is the standard's Windows-drive-letter quirk: the literal text is not a host at
		// all (it becomes the first path segment), so literal and escaped spellings are different URLs
		r.Vacuous()
		return
	}
	spellings := [4]string{spell(c, false, false), spell(c, true, false), spell(c, false, true), spell(c, true, true)}
	type outcome struct {
		ok             bool
		hostname, href string
		err            string
	}
	var outs [4]outcome
	for i, s := range spellings {
		// an unrelated call with the byte-identical host text under a non-special scheme comes first:
		// the result for the special URL must not depend on it
		_, _ = url.Parse("foo://" + s + "/")
		// … and the identical URL through a lax parser: what a differently configured parser made of
		// this host must not leak into the default parser
		for _, ip := range interferingParsers {
			_, _ = ip.Parse(c.Scheme + "://" + s + "/")
		}
		u, err := url.Parse(c.Scheme + "://" + s + "/")
		if err != nil || u == nil {
			outs[i] = outcome{err: errString(err)}
		} else {
			outs[i] = outcome{ok: true, hostname: u.Hostname(), href: u.Href(false)}
		}
	}
	distinctSpellings := map[string]bool{}
	for _, s := range spellings {
		distinctSpellings[s] = true
	}
	ascii := isPureASCII(D)
	ace := spec.HasACELabel(D)
	upper := strings.IndexFunc(D, func(r rune) bool { return r >= 'A' && r <= 'Z' }) >= 0
	if (!ascii || upper || ace) && len(distinctSpellings) >= 2 {
		r.NT()
	}
	switch {
	case !ascii:
		r.Class("D:non-ascii")
	case ace:
		r.Class("D:ascii-ace")
	default:
		r.Class("D:ascii")
	}
	r.Class("scheme:" + c.Scheme)
	// (iii) spelling independence
	for i := 1; i < 4; i++ {
		if outs[i].ok != outs[0].ok || outs[i].hostname != outs[0].hostname || outs[i].href != outs[0].href {
			r.Failf("spellings of the same host differ: %s://%s/ -> ok=%v %q ; %s://%s/ -> ok=%v %q (%s %s)", c.Scheme, quote(spellings[0]), outs[0].ok, outs[0].hostname,
				c.Scheme, quote(spellings[i]), outs[i].ok, outs[i].hostname, outs[0].err, outs[i].err)
			return
		}
	}
	o := outs[0]
	if o.ok {
		r.Class("outcome:accepted")
	} else {
		r.Class("outcome:rejected")
	}
	// (i) well-formedness
	if o.ok {
		for _, ch := range o.hostname {
			if ch > 0x7E || spec.IsForbiddenDomainCP(ch) || (ch >= 'A' && ch <= 'Z') {
				r.Failf("%s://%s/: serialized host %q contains %q (not lowercase ASCII free of forbidden domain code points)", c.Scheme, quote(spellings[0]), o.hostname, ch)
				return
			}
		}
	}
	// (ii) ASCII exactness
	if ascii && !ace {
		lower := asciiLowerStr(D)
		forbidden := strings.IndexFunc(D, spec.IsForbiddenDomainCP) >= 0
		switch {
		case forbidden:
			if o.ok {
				r.Failf("%s://%s/: the host contains a forbidden domain code point but was accepted as %q", c.Scheme, quote(D), o.hostname)
				return
			}
			r.Class("ascii:forbidden")
		case endsInANumberPlain(lower):
			want, wok := Model.ParseHost(D, false)
			if o.ok != wok || (wok && o.hostname != want) {
				r.Failf("%s://%s/: host ending in a number: got ok=%v %q, the standard gives ok=%v %q", c.Scheme, quote(D), o.ok, o.hostname, wok, want)
				return
			}
			r.Class("ascii:number")
		default:
			want := lower
			if c.Scheme == "file" && want == "localhost" {
				want = ""
			}
			if !o.ok || o.hostname != want {
				r.Failf("%s://%s/: pure-ASCII host without ACE label: got ok=%v %q (%s), expected exactly its lowercased form %q", c.Scheme, quote(D), o.ok, o.hostname, o.err, want)
				return
			}
			r.Class("ascii:exact")
		}
	}
	// (i) again, on a special URL reached through the protocol setter: a non-special URL with this host
	// text must refuse a special scheme in any letter case; if it ever becomes special its host must be
	// a normalised domain
	if v, err := url.Parse("foo://" + spellings[1] + "/"); err == nil && v != nil {
		v.SetProtocol(flipBy(c.Scheme, c.Flip))
		if v.IsSpecialScheme() {
			r.Failf("foo://%s/ became the special URL %s through SetProtocol(%q)", quote(spellings[1]), v.Href(false), flipBy(c.Scheme, c.Flip))
			return
		}
	}
	// (iv) file + localhost
	if c.Scheme == "file" && asciiLowerStr(D) == "localhost" {
		if !o.ok || o.hostname != "" || !strings.HasPrefix(o.href, "file:///") {
			r.Failf("file://%s/: localhost must become the empty host, got ok=%v host %q href %q", quote(spellings[3]), o.ok, o.hostname, o.href)
			return
		}
		r.Class("file-localhost")
	}
}

// ---- generator --------------------------------------------------------------------------------

var c09Pools = [][]string{
	/* ldh      */ {"a", "b", "c", "x", "y", "z", "n", "0", "1", "9", "-", "ab", "example", "com", "www", "test", "ab--c", "r4---sn-a5u", "xy--", "a1--b_", "--", "ab--"},
	/* upper    */ {"A", "B", "X", "N", "Z", "COM", "Example", "WWW"},
	/* non-ldh  */ {"_", "!", "$", "&", "'", "(", ")", "*", "+", ",", ";", "=", "~", "\"", "`", "{", "}"},
	/* forbid   */ {" ", "<", ">", "^", "|", "\x7f", "\x00", "\x01", "\x1f", "\x0b"},
	/* mapped   */ {"À", "É", "ǅ", "Ａ", "ａ", "０", "１", "ß", "ς", "ﬁ", "㎒", "Ⅷ", "ẞ", "İ", "K", "ℌ"},
	/* unmapped */ {"é", "ü", "日", "本", "語", "ö", "ñ", "☃", "💩", "한", "я"},
	/* ignored  */ {"\u00ad", "\u200b", "\ufe0f", "\u2060", "\ufeff"},
	/* joiners  */ {"\u200c", "\u200d", "क्\u200d", "\u094d\u200c"},
	/* rtl      */ {"א", "ב", "ג", "١", "٢", "ا", "ب"},
	/* numbers  */ {"1", "0x1", "255", "256", "0", "08", "1.2.3.4", "0x", "4294967296"},
	/* misc     */ {"\u0080", "\u0081", "\u009f", "\u00a0", "≠", "≮", "\u0338", "\ufffd", "\u0301", "\u2260", "\U000e0041", "\ufdd0", "\U0010ffff", "\u2028", "\u3000", "\u00a0"},
}
var c09ACE = []string{"xn--nxasmq6b", "XN--NXASMQ6B", "xn--ls8h", "xn--mnchen-3ya", "xn--4ca", "xn--a", "xn--", "xn--0", "xn--fa-hia", "xn--zca", "Xn--Mnchen-3yA", "xn--1ch", "xn--ab-miv", "xn--a-", "xn--ASCII-", "xn--u-ccb"}
var c09Dots = []string{".", ".", ".", ".", "\u3002", "\uff0e", "\uff61"}
var c09Whole = []string{"ab--c_d.example", "r4---sn-a5u.my_cdn.net", "xy--.a!b", "localhost.", "LOCALHOST.", "localhost..", ".localhost", "localhost.localdomain", "Localhost.", "localhost", "LOCALHOST", "LocalHost", "example.com", "EXAMPLE.COM", "faß.de", "日本語.jp", "a.b.c.d", "1.2.3.4", "0x7F.1", "a..b", "a.", ".a", "xn--nxasmq6b.com", "Ｇｏ.ｃｏｍ", "l\u00adocalhost", "ｌｏｃａｌｈｏｓｔ"}

func Gen09(t *rapid.T) Case09 {
	var c Case09
	c.Scheme = gen.Pick(t, "scheme", []string{"https", "http", "file", "ws", "wss", "ftp"})
	var sb strings.Builder
	switch k := rapid.IntRange(0, 9).Draw(t, "shape"); {
	case k == 0:
		sb.WriteString(gen.Pick(t, "whole", c09Whole))
	case k == 1 && c.Scheme == "file":
		sb.WriteString(gen.Pick(t, "localhost", []string{"localhost", "LOCALHOST", "LocalHost", "lOCALHOSt"}))
	default:
		nl := rapid.IntRange(1, 4).Draw(t, "labels")
		for i := 0; i < nl; i++ {
			if i > 0 {
				sb.WriteString(gen.Pick(t, "dot", c09Dots))
			}
			if rapid.IntRange(0, 7).Draw(t, "ace") == 0 {
				sb.WriteString(gen.Pick(t, "acelabel", c09ACE))
				continue
			}
			if rapid.IntRange(0, 19).Draw(t, "emptylabel") == 0 && nl > 1 {
				continue
			}
			na := rapid.IntRange(1, 4).Draw(t, "atoms")
			for j := 0; j < na; j++ {
				pool := 0
				if rapid.IntRange(0, 1).Draw(t, "special") == 1 {
					pool = rapid.IntRange(1, len(c09Pools)-1).Draw(t, "pool")
				}
				sb.WriteString(gen.Pick(t, "atom", c09Pools[pool]))
			}
		}
	}
	D := sb.String()
	if D == "" {
		D = "a"
	}
	c.Decoded = B(D)
	n := len([]rune(D))
	c.Flip = make([]bool, n)
	c.Esc = make([]bool, n)
	c.Lower = make([]bool, n)
	escRate := rapid.IntRange(1, 4).Draw(t, "escrate")
	for i := 0; i < n; i++ {
		c.Flip[i] = rapid.IntRange(0, 1).Draw(t, "flip") == 1
		c.Esc[i] = rapid.IntRange(0, escRate).Draw(t, "esc") == 0
		c.Lower[i] = rapid.IntRange(0, 1).Draw(t, "lower") == 1
	}
	return c
}

var P09 = core.Register(core.Prop[Case09]{
	ID: "C09",
	Rule: "a decoded host D of 1..4 labels (ASCII LDH, upper case, non-LDH ASCII allowed in domains, forbidden domain code points that survive literally in an authority, mapped / ignored / joiner / RTL / fullwidth characters, number-like labels, valid and invalid ACE labels; ASCII and ideographic dots) in one of the six special schemes, written in four spellings: literal, ASCII case flips, per-code-point %XX of all UTF-8 bytes (random hex case), both; D never contains '%', tab/LF/CR or an authority delimiter; " +
		"oracle: (i) result is lowercase ASCII free of forbidden domain code points, (ii) pure-ASCII D without ACE label: rejected iff it has a forbidden code point, else C07's result if it ends in a number, else exactly lowercase(D), (iii) all four spellings give the same outcome, Hostname and Href, (iv) file + localhost in any spelling gives the empty host; " +
		"non-trivial = D contains a non-ASCII code point, an upper-case letter or an ACE label and at least 2 of the 4 spellings differ textually; distinct by hash of the case",
	Gen:   Gen09,
	Check: Check09,
})
