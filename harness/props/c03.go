package props

import (
	"github.com/nlnwa/whatwg-url/errors"
	"github.com/nlnwa/whatwg-url/url"
	"pgregory.net/rapid"

	"verif/harness/core"
	"verif/harness/spec"
)

// C03 — serialize-then-parse is the identity on every reachable URL.

// roundTrip reparses u's serialization and compares; "" if identical.
func roundTrip(u *url.Url) string {
	href := u.Href(false)
	v, err := url.Parse(href)
	if err != nil || v == nil {
		return "serialization " + quote(href) + " does not parse again: " + errString(err)
	}
	if d := DiffObs(ObsOf(v), ObsOf(u)); d != "" {
		return "reparsing " + quote(href) + " differs (implementation = reparsed, expected = original): " + d
	}
	return ""
}

func errString(err error) string {
	if err == nil {
		return "(nil, nil)"
	}
	return err.Error()
}

// modelRoundTrips tells whether the model's own state survives serialize-then-parse; where it does
// not, the standard's own algorithms do not round-trip and the obligation is dropped (DESIGN §7.9).
func modelRoundTrips(mu *spec.URL) bool {
	v, ok := Model.Parse(mu.Href(), nil)
	return ok && v.Obs() == mu.Obs()
}

// isA7 is the classifier of the known finding KF-*-ace-std3: the library serialized a special URL
// whose host is pure ASCII with at least one ACE (xn--) label - i.e. something its IDNA step produced
// or passed - and its own host parser rejects exactly that host in the domain-to-ASCII step. Three
// ways in are known: U+2260/U+226E/U+226F through the ASCII-or-misc fallback, an STD3-disallowed ASCII
// character next to U+0130, and a nested prefix (XN--XN--0- becomes xn--0); all are the STD3-strict
// x/net/idna profile not being idempotent on ACE labels it let through itself.
func isA7(u *url.Url) bool {
	h := u.Hostname()
	if !u.IsSpecialScheme() || h == "" || !isPureASCII(h) || !spec.HasACELabel(h) {
		return false
	}
	_, err := url.Parse("http://" + h + "/")
	return err != nil && errors.Type(err) == errors.DomainToASCII
}

func Check03(c CaseHist, r *core.Rec) {
	var tr spec.Trace
	mu, mok, _ := modelParse(Model, c.start(), &tr)
	iu, err := implStart(c)
	if err != nil || iu == nil {
		r.Vacuous()
		return
	}
	check := func(step int, exemptible bool) bool {
		msg := roundTrip(iu)
		if msg == "" {
			return true
		}
		if isA7(iu) {
			r.Known("KF-C03-ace-std3", "after %s: %s", histString(c, step), msg)
			return false // state is outside the property from here on; stop this history
		}
		if exemptible && mok && mu.Obs() == ObsOf(iu) && !modelRoundTrips(mu) {
			r.Class("exempt:standard-does-not-round-trip")
			return true
		}
		r.Failf("after %s: %s", histString(c, step), msg)
		return false
	}
	comps := 0
	o := ObsOf(iu)
	for _, i := range []int{2, 3, 5, 6, 7, 8, 9} {
		if o[i] != "" && o[i] != "/" {
			comps++
		}
	}
	if comps >= 3 {
		r.NT()
	}
	r.Class("host:" + implHostKind(iu))
	// after the initial parse there is no exemption at all
	if !check(-1, false) {
		return
	}
	for i, op := range c.Ops {
		if op.Kind == "clone" {
			// a Clone is a reachable URL too (and, being a copy, in the state the history reached):
			// the history continues on it
			iu = iu.Clone()
			r.Class("op:clone")
			if !check(i, true) {
				return
			}
			continue
		}
		if op.Kind != "set" {
			continue
		}
		before := iu.Href(false)
		val := valueFor(iu, op)
		if mok {
			Model.Set(mu, op.Setter, val)
		}
		ApplySetter(iu, op.Setter, val)
		if iu.Href(false) != before {
			r.NT()
			r.Class("changed-by:" + spec.SetterNames[op.Setter])
		}
		if !check(i, true) {
			return
		}
	}
}

func implHostKind(u *url.Url) string {
	h := u.Hostname()
	switch {
	case h == "" && u.Host() == "" && !hasAuthority(u):
		return "null"
	case h == "":
		return "empty"
	case h[0] == '[':
		return "ipv6"
	case !u.IsSpecialScheme():
		return "opaque"
	case isDottedDecimal(h):
		return "ipv4"
	}
	return "domain"
}

func hasAuthority(u *url.Url) bool {
	p := u.Protocol()
	h := u.Href(false)
	return len(h) >= len(p)+2 && h[len(p):len(p)+2] == "//"
}

func Gen03(t *rapid.T) CaseHist {
	return genHistory(t, histOpts{maxOps: 8, start: "pair", clone: true})
}

var P03 = core.Register(core.Prop[CaseHist]{
	ID: "C03",
	Rule: "a start URL ((input, base) pairs as in C01 for a third of the cases, else WPT hrefs / grammar / extreme starts) followed by 0..8 setter calls (one step in twelve continues on a Clone of the URL instead: a copy is a reachable URL in the same state); " +
		"oracle: after the parse and after every setter, url.Parse(u.Href(false)) succeeds and equals u on Href + 9 getters; the exemption is computed, not listed: dropped only when the reference model is in the same state and its own state does not survive serialize-then-parse; " +
		"non-trivial = the URL has at least 3 non-empty components or some setter changed the serialization; distinct by hash of the history",
	Gen:   Gen03,
	Check: Check03,
})
