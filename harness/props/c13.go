package props

import (
	"fmt"
	"strings"

	"github.com/nlnwa/whatwg-url/url"
	"pgregory.net/rapid"

	"verif/harness/core"
	"verif/harness/gen"
	"verif/harness/spec"
)

// C13 — bases are never modified and results / clones share no state.

type Op13 struct {
	Side   int    `json:"side"` // 0 = base / original, 1 = result / clone
	Kind   string `json:"kind"` // "set", "sp", "setsearch"
	Setter int    `json:"setter,omitempty"`
	Value  B      `json:"value,omitempty"`
	SP     SPOp   `json:"sp,omitempty"`
}

func (o Op13) String() string {
	side := [...]string{"A", "B"}[o.Side&1]
	switch o.Kind {
	case "set":
		return side + "." + spec.SetterNames[o.Setter] + "=" + quote(string(o.Value))
	case "sp":
		return side + ".params." + o.SP.String()
	}
	return side + ".SetSearch(" + quote(string(o.Value)) + ")"
}

type Case13 struct {
	Scenario string `json:"scenario"` // "resolve" (A = base, B = A.Parse(ref)) or "clone" (A = original, B = A.Clone())
	URL      B      `json:"url"`
	Ref      B      `json:"ref"`
	Touch    bool   `json:"touch"` // A.SearchParams() was called before resolving / cloning
	Ops      []Op13 `json:"ops"`
	Report   bool   `json:"report,omitempty"` // parse with a validation-error-reporting parser (ValidationErrors is part of the snapshot)
}

type snap13 struct {
	obs    spec.Obs
	frag   string
	params string // the list read through getters, "" if not read
	verrs  string // ValidationErrors(), rendered
}

func renderErrors(u *url.Url) string {
	var sb strings.Builder
	for _, e := range u.ValidationErrors() {
		sb.WriteString(e.Error())
		sb.WriteString(" ; ")
	}
	return sb.String()
}

// paramsView reads the list through Has/Get/GetAll for the names of the form-urlencoded parse of the
// current query and of all names in play, plus String().
func paramsView(u *url.Url, names []string) string {
	sp := u.SearchParams()
	seen := map[string]bool{}
	var sb strings.Builder
	add := func(n string) {
		if seen[n] {
			return
		}
		seen[n] = true
		fmt.Fprintf(&sb, "%s:%v:%q;", quote(n), sp.Has(n), sp.GetAll(n))
	}
	for _, p := range spec.ParseURLEncoded(u.Query()) {
		add(p.Name)
	}
	for _, n := range names {
		add(n)
	}
	sb.WriteString("String=" + sp.String())
	return sb.String()
}

func takeSnap(u *url.Url, withParams bool, names []string) snap13 {
	s := snap13{obs: ObsOf(u), frag: u.Fragment(), verrs: renderErrors(u)}
	if withParams {
		s.params = paramsView(u, names)
	}
	return s
}

func diffSnap(a, b snap13) string {
	if d := DiffObs(a.obs, b.obs); d != "" {
		return d
	}
	if a.frag != b.frag {
		return fmt.Sprintf("fragment: %q vs %q", a.frag, b.frag)
	}
	if a.params != b.params {
		return fmt.Sprintf("search parameters: %s vs %s", a.params, b.params)
	}
	if a.verrs != b.verrs {
		return fmt.Sprintf("recorded validation errors: %q vs %q", a.verrs, b.verrs)
	}
	return ""
}

func apply13(u *url.Url, o Op13) {
	switch o.Kind {
	case "set":
		ApplySetter(u, o.Setter, string(o.Value))
	case "sp":
		applyImpl(u.SearchParams(), o.SP)
	case "setsearch":
		u.SetSearch(string(o.Value))
	}
}

func Check13(c Case13, r *core.Rec) {
	parse := url.Parse
	if c.Report {
		parse = parserR.Parse
		r.Class("reporting-parser")
	}
	mk := func() (a, b *url.Url, ok bool) {
		a, err := parse(string(c.URL))
		if err != nil || a == nil {
			return nil, nil, false
		}
		if c.Touch {
			a.SearchParams()
		}
		if c.Scenario == "resolve" {
			b, err = a.Parse(string(c.Ref))
			if err != nil || b == nil {
				return a, nil, false
			}
		} else {
			b = a.Clone()
		}
		return a, b, true
	}
	// (i) resolving / cloning does not change anything observable about A
	pristine, err := parse(string(c.URL))
	if err != nil || pristine == nil {
		r.Vacuous()
		return
	}
	A, B2, ok := mk()
	if !ok {
		if A != nil {
			if d := DiffObs(ObsOf(A), ObsOf(pristine)); d != "" {
				r.Failf("a failed resolution of %s changed the base %s: %s", quote(string(c.Ref)), quote(string(c.URL)), d)
				return
			}
		}
		r.Vacuous()
		return
	}
	if d := DiffObs(ObsOf(A), ObsOf(pristine)); d != "" {
		r.Failf("%s of %s changed the base/original: %s", c.Scenario, quote(string(c.URL)), d)
		return
	}
	if c.Scenario == "clone" {
		if d := DiffObs(ObsOf(B2), ObsOf(pristine)); d != "" {
			r.Failf("Clone of %s differs from the original: %s", quote(string(c.URL)), d)
			return
		}
	}
	r.Class("scenario:" + c.Scenario)
	if c.Touch {
		r.Class("lazy-state-existed")
	} else {
		r.Class("lazy-state-absent")
	}
	// isolated twins: fresh values with the same history, never sharing anything with the other side
	twinA, _ := parse(string(c.URL))
	var twinB *url.Url
	if c.Scenario == "resolve" {
		tb, _ := parse(string(c.URL))
		twinB, err = tb.Parse(string(c.Ref))
		if err != nil || twinB == nil {
			r.Failf("resolving %s against %s succeeds once and fails the second time", quote(string(c.Ref)), quote(string(c.URL)))
			return
		}
	} else {
		// the library's Clone starts with an empty list of recorded validation errors; the twin of a
		// clone is therefore a clone of a value nobody else ever touches
		tk, _ := parse(string(c.URL))
		if c.Report {
			twinB = tk.Clone()
		} else {
			twinB = tk // default parser: nothing is recorded, a fresh parse is the stronger twin
		}
	}
	sides := [2]*url.Url{A, B2}
	twins := [2]*url.Url{twinA, twinB}
	var names []string
	touched := [2]bool{c.Touch, false} // whether the side's parameter list has been materialised by us
	opsOn := [2]int{}
	spMutation := false
	for i, o := range c.Ops {
		x, y := o.Side&1, 1-o.Side&1
		if o.Kind == "sp" {
			names = append(names, string(o.SP.Name))
			if (o.SP.Op == "sort" || o.SP.Op == "sortabs") && sortAmbiguous(collapseList(spec.ParseURLEncoded(sides[x].Query()))) {
				return
			}
			if o.SP.Op != "get" && o.SP.Op != "has" && o.SP.Op != "getall" && o.SP.Op != "string" {
				spMutation = true
			}
		}
		// the other side is observed with its parameter list only if that list was already materialised
		// (otherwise looking would itself create the lazily created state this scenario is about)
		before := takeSnap(sides[y], touched[y], names)
		apply13(sides[x], o)
		apply13(twins[x], o)
		if o.Kind == "sp" {
			touched[x] = true
		}
		opsOn[x]++
		r.Class(fmt.Sprintf("op:%s-side%d", o.Kind, x))
		hist := func() string {
			var parts []string
			for _, oo := range c.Ops[:i+1] {
				parts = append(parts, oo.String())
			}
			return fmt.Sprintf("%s %s ref=%s touch=%v ; %s", c.Scenario, quote(string(c.URL)), quote(string(c.Ref)), c.Touch, strings.Join(parts, " ; "))
		}
		// (ii) the other side is unchanged
		if d := diffSnap(takeSnap(sides[y], touched[y], names), before); d != "" {
			r.Failf("after %s: the operation on side %d changed side %d: %s", hist(), x, y, d)
			return
		}
		// (iii) the operated-on side reflects the operation exactly like an isolated twin
		if d := diffSnap(takeSnap(sides[x], touched[x], names), takeSnap(twins[x], touched[x], names)); d != "" {
			r.Failf("after %s: side %d does not reflect its operations (got vs isolated twin): %s", hist(), x, d)
			return
		}
	}
	// final: both sides, now with their parameter lists, against their twins
	for s := 0; s < 2; s++ {
		if d := diffSnap(takeSnap(sides[s], true, names), takeSnap(twins[s], true, names)); d != "" {
			r.Failf("at the end of %s %s ref=%s touch=%v with %d operations: side %d differs from its isolated twin: %s", c.Scenario, quote(string(c.URL)), quote(string(c.Ref)), c.Touch, len(c.Ops), s, d)
			return
		}
	}
	// (iv) a Clone taken now — of a value with a history, whose parameter list need not be what its
	// query parses to — is a copy: equal in every getter and in the search parameters (recorded
	// validation errors excepted: a clone starts without them), and independent in both directions
	for s := 0; s < 2; s++ {
		k := sides[s].Clone()
		ks, os := takeSnap(k, true, names), takeSnap(sides[s], true, names)
		ks.verrs, os.verrs = "", ""
		where := fmt.Sprintf("at the end of %s %s ref=%s touch=%v with %d operations", c.Scenario, quote(string(c.URL)), quote(string(c.Ref)), c.Touch, len(c.Ops))
		if d := diffSnap(ks, os); d != "" {
			r.Failf("%s: a Clone of side %d differs from it (clone vs original): %s", where, s, d)
			return
		}
		late := append(append([]string{}, names...), "late")
		before := takeSnap(sides[s], true, late)
		k.SearchParams().Append("late", "1")
		k.SetHash("late")
		if d := diffSnap(takeSnap(sides[s], true, late), before); d != "" {
			r.Failf("%s: operations on a Clone of side %d changed side %d: %s", where, s, s, d)
			return
		}
		kBefore := takeSnap(k, true, late)
		sides[s].SearchParams().Append("late", "2")
		sides[s].SetHash("other")
		if d := diffSnap(takeSnap(k, true, late), kBefore); d != "" {
			r.Failf("%s: operations on side %d changed the Clone taken from it: %s", where, s, d)
			return
		}
		r.Class("late-clone")
	}
	if opsOn[0] >= 1 && opsOn[1] >= 1 && spMutation {
		r.NT()
	}
}

var c13URLs = []string{"data:x ?", "a:b  #f", "mailto:a@b  ?q=1#x", "sc:op  #x", "foo:o  ?=", "http://h/p?a=1&b=2#f", "http://h/?a=1&a=2", "http://u:p@h:8/a/b/c?k=v#f", "foo://h/p?x=y", "foo:opaque?a=b#f", "file:///C:/d/e?q=1", "http://h/", "http://1.2.3.4/x?y", "http://[::1]/?z", "foo:/p/q?r", "wss://h/?%41=%42&&=", "http://h/a/b/../c?d=e&f"}

func Gen13(t *rapid.T) Case13 {
	var c Case13
	if rapid.IntRange(0, 1).Draw(t, "scenario") == 0 {
		c.Scenario = "resolve"
	} else {
		c.Scenario = "clone"
	}
	if rapid.IntRange(0, 3).Draw(t, "urlKind") == 0 {
		c.URL = B(gen.StartURL(t, "url"))
	} else {
		c.URL = B(gen.Pick(t, "url", c13URLs))
	}
	if c.Scenario == "resolve" {
		c.Ref = B(gen.Ref(t, "ref", gen.SchemeOf(string(c.URL))))
		// a base with an opaque path resolves fragment-only references only: draw one half of the time
		if u := string(c.URL); !strings.Contains(u, "/") && rapid.IntRange(0, 1).Draw(t, "fragref") == 0 {
			c.Ref = B(gen.Pick(t, "fragrefv", []string{"#y", "#", "#?", "#a b", "# "}))
		}
	}
	c.Touch = rapid.IntRange(0, 1).Draw(t, "touch") == 1
	c.Report = rapid.IntRange(0, 3).Draw(t, "report") == 0
	if c.Report && rapid.IntRange(0, 1).Draw(t, "noisy") == 0 {
		// a start URL that already carries 1..7 recorded validation errors
		c.URL = B("http://example.com/" + strings.Repeat("a b ", rapid.IntRange(1, 7).Draw(t, "nerrs")) + "?q#f")
	}
	n := rapid.IntRange(1, 10).Draw(t, "nops")
	spOps := []string{"append", "append", "delete", "set", "sort", "sortabs", "get", "has", "iterate"}
	for i := 0; i < n; i++ {
		o := Op13{Side: rapid.IntRange(0, 1).Draw(t, "side")}
		switch k := rapid.IntRange(0, 9).Draw(t, "kind"); {
		case k <= 3:
			o.Kind = "sp"
			o.SP = SPOp{Op: gen.Pick(t, "spop", spOps)}
			switch o.SP.Op {
			case "append", "set":
				o.SP.Name, o.SP.Value = B(gen.Pick(t, "name", c11Names)), B(gen.Pick(t, "value", c11Values))
			case "delete", "get", "has":
				o.SP.Name = B(gen.Pick(t, "name", c11Names))
			}
		case k <= 5:
			o.Kind = "setsearch"
			o.Value = B(gen.Pick(t, "search", c12Search))
		default:
			o.Kind = "set"
			o.Setter = rapid.IntRange(0, spec.NumSetters-1).Draw(t, "setter")
			o.Value = B(gen.SetterValue(t, "value", o.Setter))
		}
		c.Ops = append(c.Ops, o)
	}
	return c
}

var P13 = core.Register(core.Prop[Case13]{
	ID: "C13",
	Rule: "two scenarios: resolve (A = parsed base, B = A.Parse(ref)) and clone (B = A.Clone()), each with A.SearchParams() touched before or never (lazily created state present or absent), then 1..10 operations (nine setters, SetSearch, SearchParams operations) each applied to a randomly chosen side, and at the end a Clone of each side as it then is; " +
		"oracle: (i) resolving / cloning leaves A identical to a pristine parse, (ii) after each operation the other side's snapshot (Href + 9 getters + fragment + parameter list through Has/GetAll/String) is unchanged, (iii) the operated-on side equals an isolated twin (fresh parse, same history, never cloned or used as base), also at the end with both parameter lists, (iv) the final Clone of each side equals it in every getter and in the parameter list (which after Append(\"a&b\", …) is not what its query parses to) and neither changes when the other is operated on; " +
		"non-trivial = at least one operation on each side and at least one SearchParams mutation; distinct by hash of the case",
	Gen:   Gen13,
	Check: Check13,
})
