//go:build race

package props

// RaceEnabled reports whether the binary was built with the race detector.
const RaceEnabled = true
