package props

import (
	"fmt"
	"strconv"
	"strings"

	"github.com/nlnwa/whatwg-url/url"
	"pgregory.net/rapid"

	"verif/harness/core"
	"verif/harness/gen"
	"verif/harness/spec"
)

// C07 — IPv4 hosts: recognised exactly per the standard and canonicalised by value.

type Case07 struct {
	Host   B      `json:"host"`
	Scheme string `json:"scheme"` // one of the six special schemes, "foo" (non-special) or "all"
	Via    string `json:"via"`    // "parse", "sethost", "sethostname"
	// Expect is what the generator knows independently of any number parser:
	// "" nothing; "value:a.b.c.d" the host was rendered from that 32-bit value; "reject" a number
	// form behind non-numeric labels.
	Expect string `json:"expect"`
}

var c07Schemes = []string{"http", "https", "ws", "wss", "ftp", "file", "foo"}

// endsInANumberPlain is the standard's ends-in-a-number checker, written independently of the model:
// the last non-empty label is all decimal digits, or 0x/0X followed by hex digits only (possibly
// none); no sign, nothing else. (An octal-looking last label is all digits, hence covered.)
func endsInANumberPlain(host string) bool {
	parts := strings.Split(host, ".")
	if parts[len(parts)-1] == "" {
		if len(parts) == 1 {
			return false
		}
		parts = parts[:len(parts)-1]
	}
	last := parts[len(parts)-1]
	if last == "" {
		return false
	}
	allDigits := true
	for i := 0; i < len(last); i++ {
		if last[i] < '0' || last[i] > '9' {
			allDigits = false
		}
	}
	if allDigits {
		return true
	}
	if len(last) >= 2 && last[0] == '0' && (last[1] == 'x' || last[1] == 'X') {
		for i := 2; i < len(last); i++ {
			c := last[i]
			if !(c >= '0' && c <= '9' || c >= 'a' && c <= 'f' || c >= 'A' && c <= 'F') {
				return false
			}
		}
		return true
	}
	return false
}

func asciiLowerStr(s string) string {
	b := []byte(s)
	for i, c := range b {
		if c >= 'A' && c <= 'Z' {
			b[i] = c + 32
		}
	}
	return string(b)
}

// observeHost places host into a URL of the given scheme through the chosen route and returns the
// resulting Hostname and whether the host was accepted.
func observeHost(scheme, via, host string) (hostname string, accepted bool, note string) {
	switch via {
	case "parse":
		u, err := url.Parse(scheme + "://" + host + "/")
		if err != nil || u == nil {
			return "", false, errString(err)
		}
		return u.Hostname(), true, u.Href(false)
	default:
		start := scheme + "://placeholder.example/"
		u, err := url.Parse(start)
		if err != nil || u == nil {
			return "", false, "start URL does not parse: " + errString(err)
		}
		if via == "sethost" {
			u.SetHost(host)
		} else {
			u.SetHostname(host)
		}
		if u.Hostname() == "placeholder.example" {
			return "", false, "setter left the host unchanged"
		}
		return u.Hostname(), true, u.Href(false)
	}
}

// modelObserveHost is observeHost on the reference model.
func modelObserveHost(scheme, via, host string) (hostname string, accepted bool) {
	switch via {
	case "parse":
		u, ok := Model.Parse(scheme+"://"+host+"/", nil)
		if !ok {
			return "", false
		}
		return u.Hostname(), true
	default:
		u, ok := Model.Parse(scheme+"://placeholder.example/", nil)
		if !ok {
			return "", false
		}
		if via == "sethost" {
			Model.SetHost(u, host)
		} else {
			Model.SetHostname(u, host)
		}
		if u.Hostname() == "placeholder.example" {
			return "", false
		}
		return u.Hostname(), true
	}
}

func check07One(c Case07, scheme string, r *core.Rec) {
	host := string(c.Host)
	got, ok, note := observeHost(scheme, c.Via, host)
	where := fmt.Sprintf("%s://%s/ via %s", scheme, quote(host), c.Via)
	if scheme == "foo" {
		// hosts of non-special URLs are never reinterpreted: the opaque-host encoding of the text
		want, wok := Model.ParseHost(host, true)
		if ok != wok {
			r.Failf("%s: opaque host accepted=%v, the standard says %v (%s)", where, ok, wok, note)
			return
		}
		if ok && got != want {
			r.Failf("%s: opaque host became %q, expected %q", where, got, want)
			return
		}
		if ok && got != host && !strings.ContainsAny(host, "%") {
			r.Failf("%s: opaque host was rewritten to %q", where, got)
		}
		return
	}
	decoded := asciiLowerStr(string(spec.PercentDecode(host)))
	number := endsInANumberPlain(decoded)
	want, wok := Model.ParseHost(host, false)
	if scheme == "file" && wok && want == "localhost" {
		want = ""
	}
	if number {
		r.Class("ends-in-number")
	} else {
		r.Class("not-a-number")
	}
	// (iii) accept/reject and serialization equal the model's host parser
	if ok != wok {
		r.Failf("%s: accepted=%v, the standard says %v (ends in a number: %v; %s)", where, ok, wok, number, note)
		return
	}
	if ok && got != want {
		r.Failf("%s: Hostname() %q, the standard gives %q (ends in a number: %v)", where, got, want, number)
		return
	}
	// (i) recognition, independent of the model's checker. The standard decides "ends in a number" on
	// the result of domain-to-ASCII; for a pure-ASCII decoded host without ACE label that result is the
	// lowercased decoded text itself, so only there can the decision be made without any IDNA mapping
	// (escapes may spell non-ASCII such as %C2%B2, which the mapping turns into a digit).
	plain := isPureASCII(decoded) && !spec.HasACELabel(decoded) && decoded != ""
	if plain && ok {
		if number && !isDottedDecimal(got) {
			r.Failf("%s: the host ends in a number but was not turned into an address: %q", where, got)
			return
		}
		if !number && isDottedDecimal(got) {
			r.Failf("%s: the host does not end in a number but became the address %q", where, got)
			return
		}
		if !number && got != decoded {
			r.Failf("%s: the host does not end in a number but was changed to %q (expected its lowercased decoded form %q)", where, got, decoded)
			return
		}
	} else if plain && !number && strings.IndexFunc(decoded, spec.IsForbiddenDomainCP) < 0 {
		r.Failf("%s: the host does not end in a number and contains no forbidden code point but was rejected (%s)", where, note)
		return
	}
	// (ii) value oracle
	switch {
	case strings.HasPrefix(c.Expect, "value:"):
		wantV := strings.TrimPrefix(c.Expect, "value:")
		if !ok || got != wantV {
			r.Failf("%s: rendered from the address %s but gives %q accepted=%v (%s)", where, wantV, got, ok, note)
			return
		}
		r.Class("value-oracle")
	case c.Expect == "reject":
		if ok {
			r.Failf("%s: ends in a number but is no IPv4 address (non-numeric labels in front, or more than four parts): it must be rejected but gives %q", where, got)
			return
		}
		r.Class("reject-oracle")
	}
	if ok {
		r.Class("accepted")
	} else {
		r.Class("rejected")
	}
}

func Check07(c Case07, r *core.Rec) {
	host := string(c.Host)
	decoded := string(spec.PercentDecode(host))
	if endsInANumberPlain(asciiLowerStr(decoded)) || (strings.ContainsAny(decoded, "0123456789") && strings.ContainsAny(decoded, "xX+-.")) {
		r.NT()
	}
	r.Class("via:" + c.Via)
	if c.Scheme == "all" {
		for _, s := range c07Schemes {
			check07One(c, s, r)
			if r.Failed() {
				return
			}
		}
		return
	}
	r.Class("scheme:" + c.Scheme)
	check07One(c, c.Scheme, r)
}

// ---- generators ---------------------------------------------------------------------------------

func renderPart(t *rapid.T, v uint64, decimalOK bool) string {
	radix := rapid.IntRange(0, 3).Draw(t, "radix")
	zeros := strings.Repeat("0", rapid.IntRange(0, 3).Draw(t, "zeros"))
	switch radix {
	case 0:
		return strconv.FormatUint(v, 10)
	case 1:
		return "0x" + zeros + mixHexCase(t, strconv.FormatUint(v, 16))
	case 2:
		return "0X" + zeros + mixHexCase(t, strconv.FormatUint(v, 16))
	default:
		return "0" + zeros + strconv.FormatUint(v, 8)
	}
}

func mixHexCase(t *rapid.T, s string) string {
	b := []byte(s)
	for i, c := range b {
		if c >= 'a' && c <= 'f' && rapid.IntRange(0, 1).Draw(t, "hexcase") == 1 {
			b[i] = c - 32
		}
	}
	return string(b)
}

func dotted(v uint32) string {
	return fmt.Sprintf("%d.%d.%d.%d", v>>24, v>>16&0xff, v>>8&0xff, v&0xff)
}

// escapeSome writes some characters of s as %XX (random hex case).
func escapeSome(t *rapid.T, s string) string {
	if rapid.IntRange(0, 3).Draw(t, "escape") != 0 {
		return s
	}
	var sb strings.Builder
	for i := 0; i < len(s); i++ {
		if rapid.IntRange(0, 3).Draw(t, "esc1") == 0 {
			h := fmt.Sprintf("%%%02X", s[i])
			if rapid.IntRange(0, 1).Draw(t, "esccase") == 0 {
				h = strings.ToLower(h)
			}
			sb.WriteString(h)
		} else {
			sb.WriteByte(s[i])
		}
	}
	return sb.String()
}

var c07Values = []uint32{0, 1, 255, 256, 65535, 65536, 16777215, 16777216, 4294967295, 2130706433, 3232235777, 0x7f000001, 0x01020304, 0x00ff00ff}
var c07Boundary = []string{"255", "256", "1.255", "1.256", "255.255", "255.256", "1.65535", "1.65536", "1.1.255", "1.1.256", "1.1.65535", "1.1.65536", "1.1.1.255", "1.1.1.256",
	"16777215", "16777216", "1.16777215", "1.16777216", "4294967295", "4294967296", "256.1", "256.1.1.1", "1.256.1.1", "1.1.256.1", "1.2.3.4.5", "1.2.3.4.5.", "1.2.3.4.0", "0.0.0.0.0", "1.2.3.4.0x0.", "1.2.3.4.5.0", "0.1.2.3.4", "1..2", ".1", "1.", "1..", "..1", ".",
	"0x", "0X", "0x.", "0X.0x", "0x.0x.0x.0x", "08", "09", "018", "0x100000000", "0xffffffff", "0xFFFFFFFF.", "037777777777", "040000000000", "00000000000000000000000001",
	"99999999999999999999", "18446744073709551616", "9223372036854775808", "0x10000000000000000", "0x7fffffffffffffff", "0xffffffffffffffffffffffffffffffffffffffffg", "0XFfFfFfFfFfFfFfFfFfAcE_3", "0xfffffffffffffffffffffff+1",
	"+1", "-1", "1.+2", "1.-2", "0x+f", "0x-1", "+0x1", "-0", "1.2.3.+4", "0+1", "1e3", "1_0", "0xg", "0x1g", "1g", "a.1", "a.0x1", "a.1.", "1.a", "a.b.c.d.1", "g.1.2.3.4", "1.2.3.g", "x.0x", "0x1.0x2.g.4",
	"1.2.3", "1.2", "1", "0", "00", "0.0.0.0", "0.0", "1.0x", "0x7f.1", "0x7F.0.0.0x1", "017.0.0.01", "0300.0250.0.01", "192.168.0.1.", "%31", "%30x1", "0%781", "1%2e2", "1%2E2%2e3.4", "%2e1", "1.2.3.4%2e", "%310", "0%58ff"}

func Gen07(t *rapid.T) Case07 {
	var c Case07
	// scheme and route
	switch k := rapid.IntRange(0, 49).Draw(t, "scheme"); {
	case k == 0:
		c.Scheme = "all"
	default:
		c.Scheme = c07Schemes[k%len(c07Schemes)]
	}
	switch rapid.IntRange(0, 5).Draw(t, "via") {
	case 0:
		c.Via = "sethost"
	case 1:
		c.Via = "sethostname"
	default:
		c.Via = "parse"
	}
	switch rapid.IntRange(0, 2).Draw(t, "gen") {
	case 0: // value-first
		var v uint32
		if rapid.IntRange(0, 3).Draw(t, "vkind") == 0 {
			v = c07Values[rapid.IntRange(0, len(c07Values)-1).Draw(t, "vpick")]
		} else {
			v = rapid.Uint32().Draw(t, "v")
		}
		n := rapid.IntRange(1, 4).Draw(t, "parts")
		var parts []string
		for i := 0; i < n-1; i++ {
			parts = append(parts, renderPart(t, uint64(v>>(24-8*uint(i))&0xff), true))
		}
		rest := uint64(v)
		if n > 1 {
			rest = uint64(v) & (1<<(32-8*uint(n-1)) - 1)
		}
		parts = append(parts, renderPart(t, rest, true))
		c.Expect = "value:" + dotted(v)
		// one or two numeric parts too many (each of them small, zero included): every part is a
		// number, so the host ends in a number and the IPv4 parser must reject it
		if n == 4 && rapid.IntRange(0, 5).Draw(t, "toomany") == 0 {
			for i, k := 0, rapid.IntRange(1, 2).Draw(t, "extra"); i < k; i++ {
				parts = append(parts, renderPart(t, uint64(rapid.SampledFrom([]int{0, 0, 1, 5, 255}).Draw(t, "extrapart")), true))
			}
			c.Expect = "reject"
		}
		// ... or very many: a part counter of 8 bits wraps at 256, a fixed array of parts ends at 4 or 8
		if n == 4 && rapid.IntRange(0, 19).Draw(t, "verymany") == 0 {
			k := gen.SizeSteps[rapid.IntRange(0, len(gen.SizeSteps)-1).Draw(t, "nparts")]
			front := make([]string, k)
			for i := range front {
				front[i] = "9"
			}
			parts = append(front, parts...)
			c.Expect = "reject"
		}
		host := strings.Join(parts, ".")
		if rapid.IntRange(0, 3).Draw(t, "dot") == 0 {
			host += "."
		}
		if rapid.IntRange(0, 5).Draw(t, "prefix") == 0 {
			host = gen.Pick(t, "prefixlabels", []string{"a.", "a.b.", "g.", "x.y.z.", "0xg.", "-."}) + host
			c.Expect = "reject"
		}
		c.Host = B(escapeSome(t, host))
	case 1: // text-first
		n := rapid.IntRange(1, 24).Draw(t, "len")
		const alphabet = "0123456789..xXaAfFbB+-_g0011"
		b := make([]byte, n)
		for i := range b {
			b[i] = alphabet[rapid.IntRange(0, len(alphabet)-1).Draw(t, "ch")]
		}
		c.Host = B(escapeSome(t, string(b)))
	default: // boundary
		h := gen.Pick(t, "boundary", c07Boundary)
		if rapid.IntRange(0, 7).Draw(t, "bdot") == 0 {
			h += "."
		}
		c.Host = B(h)
	}
	return c
}

var P07 = core.Register(core.Prop[Case07]{
	ID: "C07",
	Rule: "IPv4-ish host strings, three generators in equal shares: value-first (a 32-bit value rendered in 1..4 parts with per-part radix, leading zeros, hex case, optional trailing dot, optional non-numeric prefix labels, optional %XX spellings), text-first (1..24 characters over digits, hex letters, x X . + - _ g), boundary table (part and total limits, empty parts, signs, overflow before a non-digit); each in one of the six special schemes or a non-special scheme (1/50: all seven), through Parse, SetHost or SetHostname; " +
		"oracle: (i) treated as IPv4 exactly when an independently written ends-in-a-number checker says so, (ii) for value-first hosts the four octets computed from the value, (iii) accept/reject and Hostname equal the reference model's host parser, (iv) non-numbers never become addresses and stay their lowercased decoded text, (v) opaque hosts are never reinterpreted; " +
		"non-trivial = the decoded host ends in a number, or contains a digit and one of x X + - .; distinct by hash of the case",
	Gen:   Gen07,
	Check: Check07,
})
