package props

import (
	"bytes"
	"strings"
	"testing"
	"unicode/utf8"

	"pgregory.net/rapid"

	"verif/harness/core"
	"verif/harness/spec"
)

// Native fuzz targets (thorough tier). Each decodes the bytes into the property's case type with a
// small structured decoder (record separators 0x1e / 0x1f, header bytes for flags), so that the
// fuzzer mutates logic rather than framing, and runs the SAME check function as the rapid property;
// the semantic oracle is inside the target. A failing input is also written as a replay file.

const (
	rs = "\x1e" // record separator: between the top-level fields
	us = "\x1f" // unit separator: between operations / pairs
)

func splitN(data []byte, sep string, n int) []string {
	parts := strings.SplitN(string(data), sep, n)
	for len(parts) < n {
		parts = append(parts, "")
	}
	return parts
}

func seedVectors(f *testing.F, max int) {
	for i, v := range spec.Vectors() {
		if i >= max {
			break
		}
		if v.Base != nil {
			f.Add([]byte("\x01" + v.Input + rs + *v.Base))
		} else {
			f.Add([]byte("\x00" + v.Input))
		}
	}
	for _, h := range []string{"\x00http://-1/", "\x00http://0x+f/", "\x00http://[[::8]]/", "\x00hp://\xc3\n\x9fother.com/", "\x01/x" + rs + "file://h", "\x00http://a≠b/", "\x00http://a../", "\x00file:////./C|", "\x00http://h:0/",
		"\x01#f" + rs + "a:b", "\x01?q" + rs + "foo://h/p?x#y", "\x01C|/x" + rs + "file:///D:/y", "\x00foo:/.//p", "\x00http://1.2.3.4.5/", "\x00http://0x100000000/", "\x00wss://[::ffff:1.2.3.4]:443/"} {
		f.Add([]byte(h))
	}
}

func decode01(data []byte) Case01 {
	if len(data) == 0 {
		return Case01{}
	}
	hasBase := data[0]&1 == 1
	parts := splitN(data[1:], rs, 2)
	c := Case01{Input: B(parts[0]), HasBase: hasBase}
	if hasBase {
		c.Base = B(parts[1])
	}
	return c
}

func FuzzC01(f *testing.F) {
	seedVectors(f, 900)
	f.Fuzz(func(t *testing.T, data []byte) {
		if len(data) > 400 {
			return
		}
		core.RunFuzzCase(t, P01, decode01(data))
	})
}

// decodeHist: [flags][input] RS [base] RS [setter byte][value] US [setter byte][value] …
// setter byte: 0..8 setter, 9 resolve, 10 clone (modulo 11).
func decodeHist(data []byte, allowResolve, allowClone bool) CaseHist {
	if len(data) == 0 {
		return CaseHist{}
	}
	hasBase := data[0]&1 == 1
	parts := splitN(data[1:], rs, 3)
	c := CaseHist{Input: B(parts[0]), HasBase: hasBase}
	if hasBase {
		c.Base = B(parts[1])
	}
	if parts[2] != "" {
		for i, rec := range strings.Split(parts[2], us) {
			if i >= 10 || rec == "" {
				break
			}
			k := int(rec[0]) % 11
			v := B(rec[1:])
			switch {
			case k <= 8:
				c.Ops = append(c.Ops, Op{Kind: "set", Setter: k, Value: v})
			case k == 9 && allowResolve:
				c.Ops = append(c.Ops, Op{Kind: "resolve", Value: v})
			case k == 10 && allowClone:
				c.Ops = append(c.Ops, Op{Kind: "clone"})
			default:
				c.Ops = append(c.Ops, Op{Kind: "set", Setter: int(rec[0]) % 9, Value: v})
			}
		}
	}
	return c
}

func seedHist(f *testing.F) {
	for i, sv := range spec.SetterVectors() {
		if i%2 == 1 {
			continue
		}
		for k, n := range spec.SetterNames {
			if n == sv.Setter {
				f.Add([]byte("\x00" + sv.Href + rs + rs + string(rune(k)) + sv.New_value))
			}
		}
	}
	for _, h := range []string{
		"\x00http://localhost/" + rs + rs + "\x00file",
		"\x00file://h/C|/x" + rs + rs + "\x00http" + us + "\x00file",
		"\x00http://1.2.3.4/" + rs + rs + "\x04example.com" + us + "\x09/x",
		"\x00a:b " + rs + rs + "\x07" + us + "\x08",
		"\x00foo://u@h:1/" + rs + rs + "\x03" + us + "\x06//x" + us + "\x03",
		"\x00http://h/" + rs + rs + "\x06/.//x" + us + "\x03" + us + "\x00foo",
		"\x01../x" + rs + "http://h/a/b/c?d#e" + rs + "\x09//[::1]:0/" + us + "\x0a" + us + "\x05",
	} {
		f.Add([]byte(h))
	}
}

func FuzzC03(f *testing.F) {
	seedVectors(f, 300)
	seedHist(f)
	f.Fuzz(func(t *testing.T, data []byte) {
		if len(data) > 400 {
			return
		}
		core.RunFuzzCase(t, P03, decodeHist(data, false, false))
	})
}

func FuzzC04(f *testing.F) {
	seedVectors(f, 300)
	seedHist(f)
	f.Fuzz(func(t *testing.T, data []byte) {
		if len(data) > 400 {
			return
		}
		core.RunFuzzCase(t, P04, decodeHist(data, true, false))
	})
}

func FuzzC05(f *testing.F) {
	seedHist(f)
	f.Fuzz(func(t *testing.T, data []byte) {
		if len(data) > 400 {
			return
		}
		c := decodeHist(data, false, false)
		c.HasBase, c.Base = false, ""
		core.RunFuzzCase(t, P05, c)
	})
}

func FuzzC19(f *testing.F) {
	seedHist(f)
	f.Fuzz(func(t *testing.T, data []byte) {
		if len(data) > 400 {
			return
		}
		core.RunFuzzCase(t, P19, decodeHist(data, true, true))
	})
}

// C07: header byte = scheme and route; the rest is mapped into the critical alphabet.
func FuzzC07(f *testing.F) {
	for _, h := range c07Boundary {
		f.Add([]byte("\x00" + h))
	}
	f.Fuzz(func(t *testing.T, data []byte) {
		if len(data) < 2 || len(data) > 80 {
			return
		}
		const alphabet = "0123456789abcdefABCDEFxX..+-_g%"
		host := make([]byte, len(data)-1)
		for i, b := range data[1:] {
			if strings.IndexByte(alphabet, b) >= 0 {
				host[i] = b
			} else {
				host[i] = alphabet[int(b)%len(alphabet)]
			}
		}
		c := Case07{Host: B(host), Scheme: c07Schemes[int(data[0])%len(c07Schemes)], Via: []string{"parse", "parse", "sethost", "sethostname"}[int(data[0]>>4)%4]}
		core.RunFuzzCase(t, P07, c)
	})
}

func FuzzC08(f *testing.F) {
	for _, h := range c08Near {
		f.Add([]byte("\x00[" + h + "]"))
	}
	f.Add([]byte("\x10[[::8]]"))
	f.Add([]byte("\x21[::1]]"))
	f.Fuzz(func(t *testing.T, data []byte) {
		if len(data) < 2 || len(data) > 80 {
			return
		}
		text := string(data[1:])
		if !strings.HasPrefix(text, "[") {
			text = "[" + text
		}
		if strings.ContainsAny(text, "/?#\\@ \t\n\r") || !utf8.ValidString(text) {
			return
		}
		h := data[0]
		c := Case08{Text: B(text), Scheme: []string{"http", "foo", "file", "wss"}[int(h)%4], Via: []string{"parse", "sethost", "sethostname", "parse"}[int(h>>4)%4]}
		if h&0x08 != 0 && c.Scheme != "file" {
			c.Port = ":8080"
		}
		core.RunFuzzCase(t, P08, c)
	})
}

func FuzzC09(f *testing.F) {
	for _, h := range c09Whole {
		f.Add([]byte("\x00\x55\xaa" + h))
	}
	for _, p := range c09Pools {
		f.Add([]byte("\x01\x0f\xf0" + strings.Join(p, "")))
	}
	f.Fuzz(func(t *testing.T, data []byte) {
		if len(data) < 4 || len(data) > 60 {
			return
		}
		var sb strings.Builder
		for _, r := range string(data[3:]) {
			if r == utf8.RuneError || strings.ContainsRune("%\t\n\r/\\?#:@[]", r) {
				continue
			}
			sb.WriteRune(r)
		}
		D := sb.String()
		if D == "" {
			return
		}
		n := len([]rune(D))
		c := Case09{Decoded: B(D), Scheme: []string{"https", "http", "file", "ws", "wss", "ftp"}[int(data[0])%6], Flip: make([]bool, n), Esc: make([]bool, n), Lower: make([]bool, n)}
		for i := 0; i < n; i++ {
			c.Flip[i] = data[1]>>(uint(i)%8)&1 == 1
			c.Esc[i] = data[2]>>(uint(i)%8)&1 == 1
			c.Lower[i] = (data[1]^data[2])>>(uint(i)%8)&1 == 1
		}
		core.RunFuzzCase(t, P09, c)
	})
}

// C11: header byte selects the mode; parse: the rest is the query; roundtrip: name US value RS …
func FuzzC11(f *testing.F) {
	for _, q := range c11QueryAtoms {
		f.Add([]byte("\x00" + q + "&" + q))
	}
	f.Add([]byte("\x01a&b" + us + "c=d" + rs + "+" + us + "%"))
	f.Add([]byte("\x02a=1&b=2&a=3" + rs + "\x01a" + us + "\x03b" + us + "\x04"))
	f.Fuzz(func(t *testing.T, data []byte) {
		if len(data) < 1 || len(data) > 200 {
			return
		}
		body := data[1:]
		var c Case11
		switch data[0] % 3 {
		case 0:
			c = Case11{Mode: "parse", Query: B(body)}
		case 1:
			c.Mode = "roundtrip"
			for i, rec := range bytes.Split(body, []byte(rs)) {
				if i >= 6 {
					break
				}
				nv := splitN(rec, us, 2)
				c.Pairs = append(c.Pairs, Pair{Name: B(nv[0]), Value: B(nv[1])})
			}
		default:
			c.Mode = "ops"
			parts := splitN(body, rs, 2)
			c.Query = B(parts[0])
			ops := []string{"append", "delete", "set", "sort", "sortabs", "get", "getall", "has", "string"}
			for i, rec := range strings.Split(parts[1], us) {
				if i >= 10 || rec == "" {
					break
				}
				nv := strings.SplitN(rec[1:], "=", 2)
				o := SPOp{Op: ops[int(rec[0])%len(ops)], Name: B(nv[0])}
				if len(nv) == 2 {
					o.Value = B(nv[1])
				}
				c.Ops = append(c.Ops, o)
			}
		}
		core.RunFuzzCase(t, P11, c)
	})
}

// For the remaining properties the generators are structured enough that the rapid bit stream is the
// best "data provider": the fuzzer's bytes drive the same generator as the rapid property, and the
// coverage feedback steers the draws.
func fuzzViaRapid[C any](f *testing.F, p core.Prop[C]) {
	f.Fuzz(rapid.MakeFuzz(func(rt *rapid.T) {
		c := p.Gen(rt)
		r := &core.Rec{}
		core.SafeCheck(p, c, r)
		if r.Failed() {
			core.SaveFuzzReplay(p.ID, c, r.Message())
			rt.Fatalf("VIOLATION %s: %s", p.ID, r.Message())
		}
	}))
}

func FuzzC02(f *testing.F) { fuzzViaRapid(f, P02) }
func FuzzC06(f *testing.F) { fuzzViaRapid(f, P06) }
func FuzzC10(f *testing.F) { fuzzViaRapid(f, P10s) }
func FuzzC12(f *testing.F) { fuzzViaRapid(f, P12) }
func FuzzC13(f *testing.F) { fuzzViaRapid(f, P13) }
func FuzzC15(f *testing.F) { fuzzViaRapid(f, P15) }
func FuzzC16(f *testing.F) { fuzzViaRapid(f, P16) }
func FuzzC17(f *testing.F) { fuzzViaRapid(f, P17) }
func FuzzC18(f *testing.F) { fuzzViaRapid(f, P18) }
