package props

import (
	"testing"

	"verif/harness/core"
)

func TestC01(t *testing.T) { core.Run(t, P01) }

func TestC05(t *testing.T) { core.Run(t, P05) }

func TestC03(t *testing.T) { core.Run(t, P03) }

func TestC04(t *testing.T) { core.Run(t, P04) }

func TestC19(t *testing.T) { core.Run(t, P19) }
