package props

import (
	"os"
	"testing"

	"verif/harness/core"
)

func TestC01(t *testing.T) { core.Run(t, P01) }

func TestC05(t *testing.T) { core.Run(t, P05) }

func TestC03(t *testing.T) { core.Run(t, P03) }

func TestC04(t *testing.T) { core.Run(t, P04) }

func TestC19(t *testing.T) { core.Run(t, P19) }

func TestC06(t *testing.T) { core.Run(t, P06) }

func TestC07(t *testing.T) { core.Run(t, P07) }

func TestC08(t *testing.T) { core.Run(t, P08) }

// TestC08Shapes: the 256 zero / non-zero patterns, exhaustively (shard 0 only).
func TestC08Shapes(t *testing.T) {
	if os.Getenv("VERIF_SHARD") != "" && os.Getenv("VERIF_SHARD") != "0" {
		t.Skip("enumerations run in shard 0")
	}
	core.SetRule("C08.shapes", "all 256 zero / non-zero patterns of the eight pieces, written without compression, in a special and a non-special URL: the serializer's choice of the run to compress is enumerated completely (exhaustive)")
	n, msg := Shapes08()
	if msg != "" {
		core.ReportViolation("C08.shapes", msg, map[string]string{"note": "enumeration failure; rerun TestC08Shapes"})
		t.Fatal(msg)
	}
	core.AddEvaluations("C08.shapes", int64(n), int64(n), true, map[string]string{"example": "http://[10:0:0:13:0:0:0:17]/ -> [10:0:0:13::17]"})
}

func TestC09(t *testing.T) { core.Run(t, P09) }
