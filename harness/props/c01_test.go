package props

import (
	"fmt"
	"os"
	"testing"

	"verif/harness/core"
)

func TestC01(t *testing.T) { core.Run(t, P01) }

func TestC05(t *testing.T) { core.Run(t, P05) }

func TestC03(t *testing.T) { core.Run(t, P03) }

func TestC04(t *testing.T) { core.Run(t, P04) }

func TestC19(t *testing.T) { core.Run(t, P19) }

func TestC06(t *testing.T) { core.Run(t, P06) }

func TestC07(t *testing.T) { core.Run(t, P07) }

func TestC08(t *testing.T) { core.Run(t, P08) }

// TestC08Shapes: the 256 zero / non-zero patterns, exhaustively (shard 0 only).
func TestC08Shapes(t *testing.T) {
	if os.Getenv("VERIF_SHARD") != "" && os.Getenv("VERIF_SHARD") != "0" {
		t.Skip("enumerations run in shard 0")
	}
	n, msg := Shapes08()
	if msg != "" {
		core.ReportViolation("C08.shapes", msg, Enum{Note: "enumeration"})
		t.Fatal(msg)
	}
	core.AddEvaluations("C08.shapes", int64(n), int64(n), true, map[string]string{"example": "http://[10:0:0:13:0:0:0:17]/ -> [10:0:0:13::17]"})
}

func TestC09(t *testing.T) { core.Run(t, P09) }

func TestC10Strings(t *testing.T) { core.Run(t, P10s) }
func TestC10Derive(t *testing.T)  { core.Run(t, P10d) }

// TestC10Tables: every code point and byte against the standard's tables, and every ASCII code
// point through every component of the parser (exhaustive; shard 0 only).
func TestC10Tables(t *testing.T) {
	if os.Getenv("VERIF_SHARD") != "" && os.Getenv("VERIF_SHARD") != "0" {
		t.Skip("enumerations run in shard 0")
	}
	core.SetRule("C10.tables", "exhaustive: all 0x110000 code points (surrogates skipped) and all 256 bytes x the six named sets of the statement against tables written from the standard's definitions")
	n, msg := Tables10()
	if msg != "" {
		core.ReportViolation("C10.tables", msg, Enum{Note: "enumeration"})
		t.Fatal(msg)
	}
	core.AddEvaluations("C10.tables", n, n, true, map[string]string{"example": "FragmentPercentEncodeSet.RuneShouldBeEncoded('`') == true"})
	core.SetRule("C10.components", "exhaustive: every ASCII code point placed in every component (userinfo, path, opaque path, opaque host, query, fragment) of special and non-special URL templates, compared with the reference model's parse")
	n, msg = Components10()
	if msg != "" {
		core.ReportViolation("C10.components", msg, Enum{Note: "enumeration"})
		t.Fatal(msg)
	}
	core.AddEvaluations("C10.components", n, n, true, map[string]string{"example": "http://h/?' -> http://h/?%27 but foo://h/?' -> foo://h/?'"})
	if msg := namedSetsUnchanged(); msg != "" {
		core.ReportViolation("C10.tables", msg, Enum{Note: "enumeration"})
		t.Fatal(msg)
	}
}

func TestC11(t *testing.T) { core.Run(t, P11) }

func TestC12(t *testing.T) { core.Run(t, P12) }

func TestC13(t *testing.T) { core.Run(t, P13) }

func TestC15(t *testing.T) { core.Run(t, P15) }

func TestC16(t *testing.T) { core.Run(t, P16) }

func TestC17(t *testing.T) { core.Run(t, P17) }

func TestC18(t *testing.T) { core.Run(t, P18) }

func TestC02(t *testing.T) { core.RunWatched(t, P02) }

func TestC14(t *testing.T) {
	core.Extra("race_detector_enabled", RaceEnabled)
	core.Run(t, P14)
}

func TestC20(t *testing.T) {
	tierOverride = os.Getenv("VERIF_TIER_NAME")
	core.Run(t, P20)
}

// TestC20Fixed measures the fixed families (shard 0 only).
func TestC20Fixed(t *testing.T) {
	tierOverride = os.Getenv("VERIF_TIER_NAME")
	shard, shards, tier := shardInfo()
	stmts := loadStatementCounts()
	var reports []Report20
	for fi, f := range Families20(tier) {
		// the enumerated families are split over the shards
		if fi%shards != shard {
			continue
		}
		rep, _ := Analyse20(f)
		if s, ok := stmts[f.Name]; ok && len(s) == len(rep.Sizes) && !rep.Trivial {
			rep.Stmts = s
			for i := 1; i < len(s); i++ {
				rep.ExpStmts = append(rep.ExpStmts, exponent(float64(s[i-1]), float64(s[i]), float64(rep.Sizes[i])/float64(rep.Sizes[i-1])))
			}
		}
		reports = append(reports, rep)
		// allocation counters (replayable in-process) …
		allocRep := rep
		allocRep.Stmts, allocRep.ExpStmts = nil, nil
		msg := verdict20(allocRep)
		r := &core.Rec{}
		r.Class("op:" + f.Op)
		if rep.Trivial {
			r.Class("trivial")
		} else {
			r.NT()
		}
		if msg != "" {
			r.Failf("%s", msg)
		}
		if core.Account("C20", f, r) {
			core.Extra("fixed_families", summarise20(reports))
			t.Fatalf("VIOLATION C20: %s", msg)
		}
		// … and the statement counter (replayed through the probe)
		if len(rep.Stmts) > 0 {
			stRep := rep
			stRep.ExpBytes, stRep.ExpMall = nil, nil
			rs := &core.Rec{}
			rs.NT()
			if m := verdict20(stRep); m != "" {
				rs.Failf("%s", m)
			}
			if core.Account("C20.stmts", f, rs) {
				core.Extra("fixed_families", summarise20(reports))
				t.Fatalf("VIOLATION C20: %s", rs.Message())
			}
		}
	}
	if shard == 0 {
		core.Extra("fixed_families", summarise20(reports))
		core.Extra("statement_counter_families", len(stmts))
		core.Extra("enumerated_families_total", len(Families20(tier)))
	}
}

// TestC20Survey prints every super-linear fixed family (development aid; VERIF_C20_SURVEY=1).
func TestC20Survey(t *testing.T) {
	if os.Getenv("VERIF_C20_SURVEY") == "" {
		t.Skip()
	}
	for _, f := range FixedFamilies20 {
		rep, msg := Analyse20(f)
		if msg != "" {
			fmt.Printf("SUPERLINEAR %s: %s\n", f.Name, msg)
		} else if !rep.Trivial {
			fmt.Printf("ok %s bytes %s mallocs %s\n", f.Name, fmtExps(rep.ExpBytes), fmtExps(rep.ExpMall))
		} else {
			fmt.Printf("trivial %s\n", f.Name)
		}
	}
}

func TestC01Enum(t *testing.T) { Enum01(t) }
func TestC05Enum(t *testing.T) { Enum05(t) }
func TestC07Enum(t *testing.T) { Enum07(t) }
func TestC08Enum(t *testing.T) { Enum08(t) }
func TestC11Enum(t *testing.T) { Enum11(t) }

func TestC03EnumHist(t *testing.T) { EnumHist03(t) }
func TestC04EnumHist(t *testing.T) { EnumHist04(t) }
func TestC05EnumHist(t *testing.T) { EnumHist05(t) }
func TestC19EnumHist(t *testing.T) { EnumHist19(t) }

func TestC01Hist(t *testing.T)     { core.RunScaled(t, P01h, 1, 4) }
func TestC01EnumHist(t *testing.T) { EnumHist01(t) }
