package props

import (
	"testing"

	"verif/harness/core"
)

func TestC01(t *testing.T) { core.Run(t, P01) }
