package props

import (
	"encoding/json"
	"fmt"
	"os"
)

// loadStatementCounts reads the per-family statement counts written by the driver from the -cover
// probe ($VERIF_C20_STMTS, JSON: family name -> counts per size). Absent file: no statement oracle.
func loadStatementCounts() map[string][]uint64 {
	out := map[string][]uint64{}
	path := os.Getenv("VERIF_C20_STMTS")
	if path == "" {
		return out
	}
	data, err := os.ReadFile(path)
	if err != nil {
		return out
	}
	_ = json.Unmarshal(data, &out)
	return out
}

func summarise20(reps []Report20) []map[string]interface{} {
	var out []map[string]interface{}
	for _, r := range reps {
		m := map[string]interface{}{"family": r.Family.Name, "trivial": r.Trivial}
		if !r.Trivial {
			m["exp_bytes"] = fmtExps(r.ExpBytes)
			m["exp_mallocs"] = fmtExps(r.ExpMall)
			if len(r.ExpStmts) > 0 {
				m["exp_stmts"] = fmtExps(r.ExpStmts)
			}
		}
		out = append(out, m)
	}
	return out
}

func fmtExps(e []float64) string {
	s := ""
	for i, x := range e {
		if i > 0 {
			s += "/"
		}
		s += fmt.Sprintf("%.2f", x)
	}
	return s
}
