package props

import (
	"encoding/json"
	"fmt"
	"os"
	"os/exec"
	"path/filepath"

	"verif/harness/core"
)

// loadStatementCounts reads the per-family statement counts written by the driver from the -cover
// probe ($VERIF_C20_STMTS, JSON: family name -> counts per size). Absent file: no statement oracle.
func loadStatementCounts() map[string][]uint64 {
	out := map[string][]uint64{}
	path := os.Getenv("VERIF_C20_STMTS")
	if path == "" {
		return out
	}
	data, err := os.ReadFile(path)
	if err != nil {
		return out
	}
	_ = json.Unmarshal(data, &out)
	return out
}

// Check20Stmts is the statement-counter oracle for one family; it runs the -cover probe
// ($VERIF_C20_PROBE, built by the driver) in a subprocess. Without a probe the case is vacuous.
func Check20Stmts(f Family20, r *core.Rec) {
	probe := os.Getenv("VERIF_C20_PROBE")
	if probe == "" {
		r.Vacuous()
		return
	}
	dir, err := os.MkdirTemp(os.Getenv("VERIF_WORK"), "c20replay")
	if err != nil {
		r.Vacuous()
		return
	}
	defer os.RemoveAll(dir)
	fam := filepath.Join(dir, "family.json")
	data, _ := json.Marshal(f)
	_ = os.WriteFile(fam, data, 0o644)
	cmd := exec.Command(probe, "family", fam, dir)
	cmd.Env = append(os.Environ(), "GOCOVERDIR="+dir)
	out, err := cmd.Output()
	if err != nil {
		r.Vacuous()
		return
	}
	var counts []uint64
	if json.Unmarshal(out, &counts) != nil || len(counts) < 2 {
		r.Vacuous()
		return
	}
	rep := Report20{Family: f, Stmts: counts, Sizes: f.Sizes}
	if len(rep.Sizes) == 0 {
		rep.Sizes = DefaultSizes20()
	}
	if len(counts) < len(rep.Sizes) {
		rep.Sizes = rep.Sizes[:len(counts)]
	}
	for i := 1; i < len(counts); i++ {
		rep.ExpStmts = append(rep.ExpStmts, exponent(float64(counts[i-1]), float64(counts[i]), float64(rep.Sizes[i])/float64(rep.Sizes[i-1])))
	}
	r.NT()
	if msg := verdict20(rep); msg != "" {
		r.Failf("%s", msg)
	}
}

var P20s = core.Register(core.Prop[Family20]{
	ID:    "C20.stmts",
	Rule:  "the fixed families again, measured with the statement counter: statements executed inside the library (coverage counters of a -cover build of cmd/c20probe, count x statements summed over all blocks) at n = 1000, 4000, 16000; same exponent rule",
	Gen:   Gen20,
	Check: Check20Stmts,
})

func summarise20(reps []Report20) []map[string]interface{} {
	var out []map[string]interface{}
	for _, r := range reps {
		m := map[string]interface{}{"family": r.Family.Name, "trivial": r.Trivial}
		if !r.Trivial {
			m["exp_bytes"] = fmtExps(r.ExpBytes)
			m["exp_mallocs"] = fmtExps(r.ExpMall)
			if len(r.ExpStmts) > 0 {
				m["exp_stmts"] = fmtExps(r.ExpStmts)
			}
		}
		out = append(out, m)
	}
	return out
}

func fmtExps(e []float64) string {
	s := ""
	for i, x := range e {
		if i > 0 {
			s += "/"
		}
		s += fmt.Sprintf("%.2f", x)
	}
	return s
}
