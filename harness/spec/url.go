package spec

import "strings"

type URL struct {
	Scheme     string
	Username   string
	Password   string
	Host       *string // serialized host; nil = null
	Port       *int
	Path       []string
	Opaque     bool
	OpaquePath string
	Query      *string
	Fragment   *string
}

var specialSchemes = map[string]int{"ftp": 21, "file": -1, "http": 80, "https": 443, "ws": 80, "wss": 443}

func IsSpecialScheme(s string) bool { _, ok := specialSchemes[s]; return ok }
func (u *URL) IsSpecial() bool      { return IsSpecialScheme(u.Scheme) }

func (u *URL) Clone() *URL {
	c := *u
	if u.Host != nil {
		h := *u.Host
		c.Host = &h
	}
	if u.Port != nil {
		p := *u.Port
		c.Port = &p
	}
	if u.Query != nil {
		q := *u.Query
		c.Query = &q
	}
	if u.Fragment != nil {
		f := *u.Fragment
		c.Fragment = &f
	}
	c.Path = append([]string(nil), u.Path...)
	return &c
}

func (u *URL) includesCredentials() bool { return u.Username != "" || u.Password != "" }

func (u *URL) cannotHaveUsernamePasswordPort() bool {
	return u.Host == nil || *u.Host == "" || u.Scheme == "file"
}

func (u *URL) PathString() string {
	if u.Opaque {
		return u.OpaquePath
	}
	var sb strings.Builder
	for _, s := range u.Path {
		sb.WriteByte('/')
		sb.WriteString(s)
	}
	return sb.String()
}

func (u *URL) Serialize(excludeFragment bool) string {
	var sb strings.Builder
	sb.WriteString(u.Scheme)
	sb.WriteByte(':')
	if u.Host != nil {
		sb.WriteString("//")
		if u.includesCredentials() {
			sb.WriteString(u.Username)
			if u.Password != "" {
				sb.WriteByte(':')
				sb.WriteString(u.Password)
			}
			sb.WriteByte('@')
		}
		sb.WriteString(*u.Host)
		if u.Port != nil {
			sb.WriteByte(':')
			sb.WriteString(itoa(*u.Port))
		}
	}
	if u.Host == nil && !u.Opaque && len(u.Path) > 1 && u.Path[0] == "" {
		sb.WriteString("/.")
	}
	sb.WriteString(u.PathString())
	if u.Query != nil {
		sb.WriteByte('?')
		sb.WriteString(*u.Query)
	}
	if !excludeFragment && u.Fragment != nil {
		sb.WriteByte('#')
		sb.WriteString(*u.Fragment)
	}
	return sb.String()
}

func itoa(n int) string {
	if n == 0 {
		return "0"
	}
	var b []byte
	for n > 0 {
		b = append([]byte{byte('0' + n%10)}, b...)
		n /= 10
	}
	return string(b)
}

// ---- API getters (URL class) ----

func (u *URL) Href() string     { return u.Serialize(false) }
func (u *URL) Protocol() string { return u.Scheme + ":" }
func (u *URL) HostGetter() string {
	if u.Host == nil {
		return ""
	}
	if u.Port == nil {
		return *u.Host
	}
	return *u.Host + ":" + itoa(*u.Port)
}
func (u *URL) Hostname() string {
	if u.Host == nil {
		return ""
	}
	return *u.Host
}
func (u *URL) PortGetter() string {
	if u.Port == nil {
		return ""
	}
	return itoa(*u.Port)
}
func (u *URL) Search() string {
	if u.Query == nil || *u.Query == "" {
		return ""
	}
	return "?" + *u.Query
}
func (u *URL) Hash() string {
	if u.Fragment == nil || *u.Fragment == "" {
		return ""
	}
	return "#" + *u.Fragment
}

// ---- API setters ----

// Setter indices (order used by the harness everywhere).
const (
	SetterProtocol = iota
	SetterUsername
	SetterPassword
	SetterHost
	SetterHostname
	SetterPort
	SetterPathname
	SetterSearch
	SetterHash
	NumSetters
)

var SetterNames = [NumSetters]string{"protocol", "username", "password", "host", "hostname", "port", "pathname", "search", "hash"}

// Outcome classifies what a setter call did in the model: "guard" (the setter's own precondition
// returned before parsing), "cleared" (empty value removed the component), "fail" (the parser
// returned failure; whatever was modified before stays modified), "ret:<why>" (an early return under
// the state override), "end" (the parser ran to the end of the value).
type Outcome string

func (e *Env) run(v string, u *URL, st state) Outcome {
	var tr Trace
	_, ok := e.basicParse(v, nil, u, st, &tr)
	if !ok {
		return Outcome("fail:" + tr.FailedIn())
	}
	if tr.Return != "" {
		return Outcome("ret:" + tr.Return)
	}
	return "end"
}

// Set applies setter number which with value v.
func (e *Env) Set(u *URL, which int, v string) Outcome {
	switch which {
	case SetterProtocol:
		return e.SetProtocol(u, v)
	case SetterUsername:
		return e.SetUsername(u, v)
	case SetterPassword:
		return e.SetPassword(u, v)
	case SetterHost:
		return e.SetHost(u, v)
	case SetterHostname:
		return e.SetHostname(u, v)
	case SetterPort:
		return e.SetPort(u, v)
	case SetterPathname:
		return e.SetPathname(u, v)
	case SetterSearch:
		return e.SetSearch(u, v)
	case SetterHash:
		return e.SetHash(u, v)
	}
	panic("bad setter")
}

func (e *Env) SetProtocol(u *URL, v string) Outcome { return e.run(v+":", u, stSchemeStart) }
func (e *Env) SetUsername(u *URL, v string) Outcome {
	if u.cannotHaveUsernamePasswordPort() {
		return "guard"
	}
	u.Username = PercentEncodeString(v, SetUserinfo)
	return "end"
}
func (e *Env) SetPassword(u *URL, v string) Outcome {
	if u.cannotHaveUsernamePasswordPort() {
		return "guard"
	}
	u.Password = PercentEncodeString(v, SetUserinfo)
	return "end"
}
func (e *Env) SetHost(u *URL, v string) Outcome {
	if u.Opaque {
		return "guard"
	}
	return e.run(v, u, stHost)
}
func (e *Env) SetHostname(u *URL, v string) Outcome {
	if u.Opaque {
		return "guard"
	}
	return e.run(v, u, stHostname)
}
func (e *Env) SetPort(u *URL, v string) Outcome {
	if u.cannotHaveUsernamePasswordPort() {
		return "guard"
	}
	if v == "" {
		u.Port = nil
		return "cleared"
	}
	return e.run(v, u, stPort)
}
func (e *Env) SetPathname(u *URL, v string) Outcome {
	if u.Opaque {
		return "guard"
	}
	u.Path = nil
	return e.run(v, u, stPathStart)
}
func (u *URL) potentiallyStripTrailingSpaces() {
	if !u.Opaque || u.Fragment != nil || u.Query != nil {
		return
	}
	u.OpaquePath = strings.TrimRight(u.OpaquePath, " ")
}
func (e *Env) SetSearch(u *URL, v string) Outcome {
	if v == "" {
		u.Query = nil
		u.potentiallyStripTrailingSpaces()
		return "cleared"
	}
	v = strings.TrimPrefix(v, "?")
	empty := ""
	u.Query = &empty
	return e.run(v, u, stQuery)
}
func (e *Env) SetHash(u *URL, v string) Outcome {
	if v == "" {
		u.Fragment = nil
		u.potentiallyStripTrailingSpaces()
		return "cleared"
	}
	v = strings.TrimPrefix(v, "#")
	empty := ""
	u.Fragment = &empty
	return e.run(v, u, stFragment)
}

// Obs is the observation compared between model and implementation: Href and the nine getters.
type Obs [10]string

var ObsNames = [10]string{"href", "protocol", "username", "password", "host", "hostname", "port", "pathname", "search", "hash"}

func (u *URL) Obs() Obs {
	return Obs{u.Href(), u.Protocol(), u.Username, u.Password, u.HostGetter(), u.Hostname(), u.PortGetter(), u.PathString(), u.Search(), u.Hash()}
}
