package spec

import (
	_ "embed"
	"encoding/json"
	"fmt"
)

// The harness's own pinned copy of the WPT vectors (copied from the pinned commit of the repository),
// so that the oracle's validity does not depend on the tree under test.

//go:embed testdata/urltestdata.json
var urlTestData []byte

//go:embed testdata/setters_tests.json
var settersTestData []byte

type Vector struct {
	Input    string
	Base     *string
	Href     string
	Protocol string
	Username string
	Password string
	Host     string
	Hostname string
	Port     string
	Pathname string
	Search   string
	Hash     string
	Failure  bool
}

type SetterVector struct {
	Setter    string `json:"-"`
	Comment   string
	Href      string
	New_value string
	Expected  map[string]string
}

// Vectors returns the pinned urltestdata.json vectors.
func Vectors() []Vector {
	var raw []json.RawMessage
	if err := json.Unmarshal(urlTestData, &raw); err != nil {
		panic(err)
	}
	var out []Vector
	for _, r := range raw {
		var v Vector
		if json.Unmarshal(r, &v) != nil || (v.Href == "" && !v.Failure) {
			continue
		}
		out = append(out, v)
	}
	return out
}

// SetterVectors returns the pinned setters_tests.json vectors for the nine setters.
func SetterVectors() []SetterVector {
	var st map[string]json.RawMessage
	if err := json.Unmarshal(settersTestData, &st); err != nil {
		panic(err)
	}
	var out []SetterVector
	for _, name := range SetterNames {
		var l []SetterVector
		if json.Unmarshal(st[name], &l) != nil {
			continue
		}
		for _, t := range l {
			t.Setter = name
			out = append(out, t)
		}
	}
	return out
}

// SelfCheck runs the model over the pinned vectors. A vector whose host mapping is delegated to the
// IDNA function of the environment (NeedsIDNA was consulted and true) cannot fail the self-check:
// there a disagreement may be the implementation's. Returns the number of vectors that were decisive
// and the list of disagreements among them.
func (e *Env) SelfCheck() (decisive int, bad []string) {
	for _, v := range Vectors() {
		e.idnaUsed = false
		var base *URL
		ok := true
		if v.Base != nil {
			base, ok = e.Parse(*v.Base, nil)
		}
		var u *URL
		if ok {
			u, ok = e.Parse(v.Input, base)
		}
		if e.idnaUsed {
			continue
		}
		decisive++
		if ok == v.Failure {
			bad = append(bad, fmt.Sprintf("parse input=%q base=%v: model ok=%v, vector failure=%v", v.Input, v.Base, ok, v.Failure))
			continue
		}
		if !ok {
			continue
		}
		got := u.Obs()
		want := Obs{v.Href, v.Protocol, v.Username, v.Password, v.Host, v.Hostname, v.Port, v.Pathname, v.Search, v.Hash}
		for i := range got {
			if got[i] != want[i] {
				bad = append(bad, fmt.Sprintf("parse input=%q base=%v: %s model %q vector %q", v.Input, v.Base, ObsNames[i], got[i], want[i]))
				break
			}
		}
	}
	for _, t := range SetterVectors() {
		e.idnaUsed = false
		u, ok := e.Parse(t.Href, nil)
		if !ok {
			bad = append(bad, fmt.Sprintf("setter %s: href %q does not parse in the model", t.Setter, t.Href))
			continue
		}
		for i, n := range SetterNames {
			if n == t.Setter {
				e.Set(u, i, t.New_value)
			}
		}
		if e.idnaUsed {
			continue
		}
		decisive++
		got := u.Obs()
		for i, n := range ObsNames {
			if w, ok := t.Expected[n]; ok && got[i] != w {
				bad = append(bad, fmt.Sprintf("setter %s href=%q new=%q: %s model %q vector %q", t.Setter, t.Href, t.New_value, n, got[i], w))
			}
		}
	}
	return
}
