package spec

import (
	"strings"
	"unicode/utf8"
)

// Set is a percent-encode set restricted to its ASCII part; every code point > 0x7E is in every set.
type Set func(r rune) bool

func SetC0Control(r rune) bool { return r <= 0x1F || r > 0x7E }
func SetFragment(r rune) bool {
	return SetC0Control(r) || r == ' ' || r == '"' || r == '<' || r == '>' || r == '`'
}
func SetQuery(r rune) bool {
	return SetC0Control(r) || r == ' ' || r == '"' || r == '#' || r == '<' || r == '>'
}
func SetSpecialQuery(r rune) bool { return SetQuery(r) || r == '\'' }
func SetPath(r rune) bool {
	return SetQuery(r) || r == '?' || r == '`' || r == '{' || r == '}'
}
func SetUserinfo(r rune) bool {
	if SetPath(r) {
		return true
	}
	switch r {
	case '/', ':', ';', '=', '@', '[', '\\', ']', '^', '|':
		return true
	}
	return false
}
func SetComponent(r rune) bool {
	return SetUserinfo(r) || (r >= '$' && r <= '&') || r == '+' || r == ','
}
func SetURLEncoded(r rune) bool {
	return SetComponent(r) || r == '!' || (r >= '\'' && r <= ')') || r == '~'
}

const upperhex = "0123456789ABCDEF"

func PercentEncodeRune(r rune, set Set) string {
	if !set(r) {
		return string(r)
	}
	var buf [4]byte
	n := utf8.EncodeRune(buf[:], r)
	var sb strings.Builder
	for i := 0; i < n; i++ {
		sb.WriteByte('%')
		sb.WriteByte(upperhex[buf[i]>>4])
		sb.WriteByte(upperhex[buf[i]&15])
	}
	return sb.String()
}

// PercentEncodeString: UTF-8 percent-encode a scalar value string.
func PercentEncodeString(s string, set Set) string {
	var sb strings.Builder
	for _, r := range []rune(s) {
		sb.WriteString(PercentEncodeRune(r, set))
	}
	return sb.String()
}

// ---- application/x-www-form-urlencoded ----

type Pair struct{ Name, Value string }

func decodeUTF8Lossy(b []byte) string {
	// UTF-8 decode without BOM; invalid sequences become U+FFFD (Go's per-byte replacement;
	// comparisons collapse runs of U+FFFD, see CollapseFFFD).
	return string([]rune(string(b)))
}

func ParseURLEncoded(input string) []Pair {
	var out []Pair
	for _, seq := range strings.Split(input, "&") {
		if seq == "" {
			continue
		}
		name, value := seq, ""
		if i := strings.IndexByte(seq, '='); i >= 0 {
			name, value = seq[:i], seq[i+1:]
		}
		name = strings.ReplaceAll(name, "+", " ")
		value = strings.ReplaceAll(value, "+", " ")
		out = append(out, Pair{decodeUTF8Lossy(PercentDecode(name)), decodeUTF8Lossy(PercentDecode(value))})
	}
	return out
}

func SerializeURLEncoded(pairs []Pair) string {
	var sb strings.Builder
	enc := func(s string) {
		for _, r := range []rune(s) {
			if r == ' ' {
				sb.WriteByte('+')
			} else {
				sb.WriteString(PercentEncodeRune(r, SetURLEncoded))
			}
		}
	}
	for i, p := range pairs {
		if i > 0 {
			sb.WriteByte('&')
		}
		enc(p.Name)
		sb.WriteByte('=')
		enc(p.Value)
	}
	return sb.String()
}

// CollapseFFFD maps invalid bytes to U+FFFD and collapses runs of U+FFFD to one,
// so that per-byte and per-maximal-subpart replacement compare equal.
func CollapseFFFD(s string) string {
	rs := []rune(s)
	out := make([]rune, 0, len(rs))
	for _, r := range rs {
		if r == 0xFFFD && len(out) > 0 && out[len(out)-1] == 0xFFFD {
			continue
		}
		out = append(out, r)
	}
	return string(out)
}
