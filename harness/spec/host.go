// Package spec is an independent reference model of the WHATWG URL Standard
// (24 May 2023 snapshot), written from the standard's text, not from the code under test.
package spec

import (
	"math/big"
	"strconv"
	"strings"
	"unicode/utf8"
)

// ToASCIIFunc is the IDNA mapping "taken as given": called only for domains that contain
// a non-ASCII code point or an ACE (xn--) label.
type ToASCIIFunc func(domain string) (string, bool)

type Env struct {
	ToASCII ToASCIIFunc
	// Quirks reproduce known findings exactly (all false = the standard).
	Quirks map[string]bool

	idnaUsed bool // set when the delegated mapping was consulted (self-check bookkeeping)
}

// IDNAUsed reports whether the delegated IDNA mapping was consulted since ResetIDNAUsed.
func (e *Env) IDNAUsed() bool { return e.idnaUsed }
func (e *Env) ResetIDNAUsed() { e.idnaUsed = false }

func (e *Env) q(name string) bool { return e != nil && e.Quirks[name] }

func isAlpha(r rune) bool { return (r >= 'a' && r <= 'z') || (r >= 'A' && r <= 'Z') }
func isDigit(r rune) bool { return r >= '0' && r <= '9' }
func isAlnum(r rune) bool { return isAlpha(r) || isDigit(r) }
func isHex(r rune) bool   { return isDigit(r) || (r >= 'a' && r <= 'f') || (r >= 'A' && r <= 'F') }
func hexVal(r rune) int {
	switch {
	case r >= '0' && r <= '9':
		return int(r - '0')
	case r >= 'a' && r <= 'f':
		return int(r-'a') + 10
	default:
		return int(r-'A') + 10
	}
}

func IsForbiddenHostCP(r rune) bool {
	switch r {
	case 0x00, 0x09, 0x0A, 0x0D, 0x20, '#', '/', ':', '<', '>', '?', '@', '[', '\\', ']', '^', '|':
		return true
	}
	return false
}

func IsForbiddenDomainCP(r rune) bool {
	return IsForbiddenHostCP(r) || r <= 0x1F || r == '%' || r == 0x7F
}

// PercentDecode: bytes -> bytes.
func PercentDecode(s string) []byte {
	out := make([]byte, 0, len(s))
	for i := 0; i < len(s); i++ {
		c := s[i]
		if c == '%' && i+2 < len(s) && isHex(rune(s[i+1])) && isHex(rune(s[i+2])) {
			out = append(out, byte(hexVal(rune(s[i+1]))<<4|hexVal(rune(s[i+2]))))
			i += 2
		} else {
			out = append(out, c)
		}
	}
	return out
}

func isASCII(s string) bool {
	for i := 0; i < len(s); i++ {
		if s[i] >= 0x80 {
			return false
		}
	}
	return true
}

func asciiLower(s string) string {
	b := []byte(s)
	for i, c := range b {
		if c >= 'A' && c <= 'Z' {
			b[i] = c + 32
		}
	}
	return string(b)
}

// HasACELabel: some label starts with an ASCII case-insensitive "xn--".
func HasACELabel(s string) bool {
	for _, l := range strings.Split(s, ".") {
		if len(l) >= 4 && asciiLower(l[:4]) == "xn--" {
			return true
		}
	}
	return false
}

// NeedsIDNA tells whether the domain's mapping is delegated (non-ASCII or ACE label).
func NeedsIDNA(domain string) bool { return !isASCII(domain) || HasACELabel(domain) }

func (e *Env) domainToASCII(domain string) (string, bool) {
	if !NeedsIDNA(domain) {
		// UTS46 with UseSTD3ASCIIRules=false, CheckHyphens=false, VerifyDnsLength=false:
		// every ASCII code point is valid or (A-Z) mapped to lowercase.
		r := asciiLower(domain)
		if r == "" {
			return "", false
		}
		return r, true
	}
	if e == nil || e.ToASCII == nil {
		return "", false
	}
	e.idnaUsed = true
	r, ok := e.ToASCII(domain)
	if !ok || r == "" {
		return "", false
	}
	return r, true
}

// ParseHost implements the host parser. Returns the serialized host.
func (e *Env) ParseHost(input string, isOpaque bool) (string, bool) {
	if strings.HasPrefix(input, "[") {
		if !strings.HasSuffix(input, "]") {
			return "", false
		}
		inner := input[1 : len(input)-1]
		a, ok := ParseIPv6(inner)
		if !ok {
			return "", false
		}
		return "[" + SerializeIPv6(a) + "]", true
	}
	if isOpaque {
		return parseOpaqueHost(input)
	}
	// input is not empty (asserted by the standard; callers guarantee it)
	dec := PercentDecode(input)
	if !utf8.Valid(dec) {
		// UTF-8 decode without BOM yields U+FFFD which UTS46 disallows.
		return "", false
	}
	domain := string(dec)
	asciiDomain, ok := e.domainToASCII(domain)
	if !ok {
		return "", false
	}
	for _, r := range asciiDomain {
		if IsForbiddenDomainCP(r) {
			return "", false
		}
	}
	if e.endsInANumber(asciiDomain) {
		v, ok := e.ParseIPv4(asciiDomain)
		if !ok {
			return "", false
		}
		return SerializeIPv4(v), true
	}
	return asciiDomain, true
}

func parseOpaqueHost(input string) (string, bool) {
	for _, r := range input {
		if IsForbiddenHostCP(r) {
			return "", false
		}
	}
	return PercentEncodeString(input, SetC0Control), true
}

func (e *Env) endsInANumber(input string) bool {
	parts := strings.Split(input, ".")
	if parts[len(parts)-1] == "" {
		if len(parts) == 1 {
			return false
		}
		parts = parts[:len(parts)-1]
	}
	last := parts[len(parts)-1]
	if last != "" {
		all := true
		for _, r := range last {
			if !isDigit(r) {
				all = false
			}
		}
		if all {
			return true
		}
	}
	if _, ok := e.parseIPv4Number(last); ok {
		return true
	}
	return false
}

func (e *Env) parseIPv4Number(input string) (*big.Int, bool) {
	if input == "" {
		return nil, false
	}
	R := 10
	if len(input) >= 2 && (input[:2] == "0x" || input[:2] == "0X") {
		input = input[2:]
		R = 16
	} else if len(input) >= 2 && input[0] == '0' {
		input = input[1:]
		R = 8
	}
	if input == "" {
		return big.NewInt(0), true
	}
	for _, r := range input {
		switch R {
		case 10:
			if !isDigit(r) {
				return nil, false
			}
		case 16:
			if !isHex(r) {
				return nil, false
			}
		case 8:
			if r < '0' || r > '7' {
				return nil, false
			}
		}
	}
	n, ok := new(big.Int).SetString(input, R)
	if !ok {
		return nil, false
	}
	return n, true
}

func (e *Env) ParseIPv4(input string) (uint32, bool) {
	parts := strings.Split(input, ".")
	if parts[len(parts)-1] == "" {
		if len(parts) > 1 {
			parts = parts[:len(parts)-1]
		}
	}
	if len(parts) > 4 {
		return 0, false
	}
	var numbers []*big.Int
	for _, p := range parts {
		n, ok := e.parseIPv4Number(p)
		if !ok {
			return 0, false
		}
		numbers = append(numbers, n)
	}
	b255 := big.NewInt(255)
	for _, n := range numbers[:len(numbers)-1] {
		if n.Cmp(b255) > 0 {
			return 0, false
		}
	}
	limit := new(big.Int).Exp(big.NewInt(256), big.NewInt(int64(5-len(numbers))), nil)
	last := numbers[len(numbers)-1]
	if last.Cmp(limit) >= 0 {
		return 0, false
	}
	ipv4 := new(big.Int).Set(last)
	for i, n := range numbers[:len(numbers)-1] {
		m := new(big.Int).Exp(big.NewInt(256), big.NewInt(int64(3-i)), nil)
		ipv4.Add(ipv4, m.Mul(m, n))
	}
	return uint32(ipv4.Uint64()), true
}

func SerializeIPv4(a uint32) string {
	return strconv.Itoa(int(a>>24)) + "." + strconv.Itoa(int(a>>16&0xFF)) + "." + strconv.Itoa(int(a>>8&0xFF)) + "." + strconv.Itoa(int(a&0xFF))
}

func ParseIPv6(s string) ([8]uint16, bool) {
	var address [8]uint16
	in := []rune(s)
	const EOF = rune(-1)
	p := 0
	c := func() rune {
		if p >= len(in) || p < 0 {
			return EOF
		}
		return in[p]
	}
	pieceIndex := 0
	compress := -1
	if c() == ':' {
		if p+1 >= len(in) || in[p+1] != ':' {
			return address, false
		}
		p += 2
		pieceIndex++
		compress = pieceIndex
	}
	for c() != EOF {
		if pieceIndex == 8 {
			return address, false
		}
		if c() == ':' {
			if compress != -1 {
				return address, false
			}
			p++
			pieceIndex++
			compress = pieceIndex
			continue
		}
		value, length := 0, 0
		for length < 4 && c() != EOF && isHex(c()) {
			value = value*0x10 + hexVal(c())
			p++
			length++
		}
		if c() == '.' {
			if length == 0 {
				return address, false
			}
			p -= length
			if pieceIndex > 6 {
				return address, false
			}
			numbersSeen := 0
			for c() != EOF {
				ipv4Piece := -1
				if numbersSeen > 0 {
					if c() == '.' && numbersSeen < 4 {
						p++
					} else {
						return address, false
					}
				}
				if c() == EOF || !isDigit(c()) {
					return address, false
				}
				for c() != EOF && isDigit(c()) {
					number := int(c() - '0')
					if ipv4Piece == -1 {
						ipv4Piece = number
					} else if ipv4Piece == 0 {
						return address, false
					} else {
						ipv4Piece = ipv4Piece*10 + number
					}
					if ipv4Piece > 255 {
						return address, false
					}
					p++
				}
				address[pieceIndex] = address[pieceIndex]*0x100 + uint16(ipv4Piece)
				numbersSeen++
				if numbersSeen == 2 || numbersSeen == 4 {
					pieceIndex++
				}
			}
			if numbersSeen != 4 {
				return address, false
			}
			break
		} else if c() == ':' {
			p++
			if c() == EOF {
				return address, false
			}
		} else if c() != EOF {
			return address, false
		}
		address[pieceIndex] = uint16(value)
		pieceIndex++
	}
	if compress != -1 {
		swaps := pieceIndex - compress
		pieceIndex = 7
		for pieceIndex != 0 && swaps > 0 {
			address[pieceIndex], address[compress+swaps-1] = address[compress+swaps-1], address[pieceIndex]
			pieceIndex--
			swaps--
		}
	} else if pieceIndex != 8 {
		return address, false
	}
	return address, true
}

func SerializeIPv6(a [8]uint16) string {
	// first longest run of >1 zero pieces
	compress, best := -1, 1
	for i := 0; i < 8; {
		if a[i] != 0 {
			i++
			continue
		}
		j := i
		for j < 8 && a[j] == 0 {
			j++
		}
		if j-i > best {
			best = j - i
			compress = i
		}
		i = j
	}
	var sb strings.Builder
	ignore0 := false
	for i := 0; i < 8; i++ {
		if ignore0 && a[i] == 0 {
			continue
		} else if ignore0 {
			ignore0 = false
		}
		if compress == i {
			if i == 0 {
				sb.WriteString("::")
			} else {
				sb.WriteString(":")
			}
			ignore0 = true
			continue
		}
		sb.WriteString(strconv.FormatUint(uint64(a[i]), 16))
		if i != 7 {
			sb.WriteString(":")
		}
	}
	return sb.String()
}
