package spec

import "strings"

type state int

const (
	stNone state = iota
	stSchemeStart
	stScheme
	stNoScheme
	stSpecialRelativeOrAuthority
	stPathOrAuthority
	stRelative
	stRelativeSlash
	stSpecialAuthoritySlashes
	stSpecialAuthorityIgnoreSlashes
	stAuthority
	stHost
	stHostname
	stPort
	stFile
	stFileSlash
	stFileHost
	stPathStart
	stPath
	stOpaquePath
	stQuery
	stFragment
)

const eof = rune(-1)

func isC0OrSpace(r rune) bool { return r <= 0x20 }

func isWindowsDriveLetter(rs []rune) bool {
	return len(rs) == 2 && isAlpha(rs[0]) && (rs[1] == ':' || rs[1] == '|')
}
func isNormalizedWindowsDriveLetter(s string) bool {
	rs := []rune(s)
	return len(rs) == 2 && isAlpha(rs[0]) && rs[1] == ':'
}
func startsWithWindowsDriveLetter(rs []rune) bool {
	if len(rs) < 2 || !isWindowsDriveLetter(rs[:2]) {
		return false
	}
	if len(rs) == 2 {
		return true
	}
	switch rs[2] {
	case '/', '\\', '?', '#':
		return true
	}
	return false
}

func isSingleDot(s string) bool {
	s = asciiLower(s)
	return s == "." || s == "%2e"
}
func isDoubleDot(s string) bool {
	s = asciiLower(s)
	return s == ".." || s == ".%2e" || s == "%2e." || s == "%2e%2e"
}

func (u *URL) shortenPath() {
	if u.Scheme == "file" && len(u.Path) == 1 && isNormalizedWindowsDriveLetter(u.Path[0]) {
		return
	}
	if len(u.Path) > 0 {
		u.Path = u.Path[:len(u.Path)-1]
	}
}

// Trace records what the model did during one run of the basic URL parser. It exists for the
// harness only (class labels, non-triviality rules, "failed for lack of a scheme").
type Trace struct {
	States    uint32 // bit i set: state i was entered
	Failed    bool
	FailState state  // state in which failure was returned
	Return    string // name of an early "return" taken under a state override ("" = ran to the end)
}

// NumStates counts distinct states entered.
func (t *Trace) NumStates() int {
	n := 0
	for x := t.States; x != 0; x &= x - 1 {
		n++
	}
	return n
}

// StateNames lists the states entered.
func (t *Trace) StateNames() []string {
	var out []string
	for i := 1; i < len(stateNames); i++ {
		if t.States&(1<<uint(i)) != 0 {
			out = append(out, stateNames[i])
		}
	}
	return out
}

// FailedIn names the state of failure ("" if none).
func (t *Trace) FailedIn() string {
	if !t.Failed {
		return ""
	}
	return stateNames[t.FailState]
}

// NoSchemeFailure tells that the parse failed in the no-scheme state (missing scheme and no usable base).
func (t *Trace) NoSchemeFailure() bool { return t.Failed && t.FailState == stNoScheme }

var stateNames = [...]string{"none", "scheme-start", "scheme", "no-scheme", "special-relative-or-authority",
	"path-or-authority", "relative", "relative-slash", "special-authority-slashes",
	"special-authority-ignore-slashes", "authority", "host", "hostname", "port", "file", "file-slash",
	"file-host", "path-start", "path", "opaque-path", "query", "fragment"}

// Parse is the URL parser (no encoding override): input against optional base.
func (e *Env) Parse(input string, base *URL) (*URL, bool) {
	return e.basicParse(input, base, nil, stNone, nil)
}

// ParseT is Parse with a trace.
func (e *Env) ParseT(input string, base *URL, tr *Trace) (*URL, bool) {
	*tr = Trace{}
	return e.basicParse(input, base, nil, stNone, tr)
}

// basicParse implements the basic URL parser. With url != nil it modifies url in place
// (state override); the bool result is false on failure.
func (e *Env) basicParse(inputStr string, base *URL, url *URL, override state, tr *Trace) (*URL, bool) {
	var st state
	fail := func() (*URL, bool) {
		if tr != nil {
			tr.Failed, tr.FailState = true, st
		}
		return url, false
	}
	ret := func(why string) (*URL, bool) {
		if tr != nil {
			tr.Return = why
		}
		return url, true
	}
	in := []rune(inputStr) // invalid UTF-8 bytes become U+FFFD
	if url == nil {
		url = &URL{}
		i, j := 0, len(in)
		for i < j && isC0OrSpace(in[i]) {
			i++
		}
		for j > i && isC0OrSpace(in[j-1]) {
			j--
		}
		in = in[i:j]
	}
	{
		out := in[:0:0]
		for _, r := range in {
			if r != 0x09 && r != 0x0A && r != 0x0D {
				out = append(out, r)
			}
		}
		in = out
	}
	st = override
	if st == stNone {
		st = stSchemeStart
	}
	overridden := override != stNone
	var buffer []rune
	atSignSeen, insideBrackets, passwordTokenSeen := false, false, false
	p := 0
	c := func() rune {
		if p >= len(in) {
			return eof
		}
		return in[p]
	}
	remaining := func() []rune {
		if p+1 >= len(in) {
			return nil
		}
		return in[p+1:]
	}
	remStarts := func(s string) bool { return strings.HasPrefix(string(remaining()), s) }
	fromPointer := func() []rune {
		if p >= len(in) {
			return nil
		}
		return in[p:]
	}
	special := func() bool { return url.IsSpecial() }
	empty := func() *string { s := ""; return &s }

	for {
		ch := c()
		if tr != nil {
			tr.States |= 1 << uint(st)
		}
		switch st {
		case stSchemeStart:
			if ch != eof && isAlpha(ch) {
				buffer = append(buffer, []rune(asciiLower(string(ch)))...)
				st = stScheme
			} else if !overridden {
				st = stNoScheme
				p--
			} else {
				return fail()
			}
		case stScheme:
			if ch != eof && (isAlnum(ch) || ch == '+' || ch == '-' || ch == '.') {
				buffer = append(buffer, []rune(asciiLower(string(ch)))...)
			} else if ch == ':' {
				buf := string(buffer)
				if overridden {
					if special() != IsSpecialScheme(buf) {
						return ret("scheme-specialness")
					}
					if (url.includesCredentials() || url.Port != nil) && buf == "file" {
						return ret("scheme-file-creds")
					}
					if url.Scheme == "file" && url.Host != nil && *url.Host == "" {
						return ret("scheme-file-emptyhost")
					}
				}
				url.Scheme = buf
				if overridden {
					if dp, ok := specialSchemes[url.Scheme]; ok && url.Port != nil && *url.Port == dp {
						url.Port = nil
					}
					return ret("scheme-set")
				}
				buffer = nil
				if url.Scheme == "file" {
					st = stFile
				} else if special() && base != nil && base.Scheme == url.Scheme {
					st = stSpecialRelativeOrAuthority
				} else if special() {
					st = stSpecialAuthoritySlashes
				} else if remStarts("/") {
					st = stPathOrAuthority
					p++
				} else {
					url.Opaque = true
					url.OpaquePath = ""
					st = stOpaquePath
				}
			} else if !overridden {
				buffer = nil
				st = stNoScheme
				p = -1
			} else {
				return fail()
			}
		case stNoScheme:
			if base == nil || (base.Opaque && ch != '#') {
				return fail()
			} else if base.Opaque && ch == '#' {
				url.Scheme = base.Scheme
				url.Opaque, url.OpaquePath = true, base.OpaquePath
				url.Path = nil
				if base.Query != nil {
					q := *base.Query
					url.Query = &q
				}
				url.Fragment = empty()
				st = stFragment
			} else if base.Scheme != "file" {
				st = stRelative
				p--
			} else {
				st = stFile
				p--
			}
		case stSpecialRelativeOrAuthority:
			if ch == '/' && remStarts("/") {
				st = stSpecialAuthorityIgnoreSlashes
				p++
			} else {
				st = stRelative
				p--
			}
		case stPathOrAuthority:
			if ch == '/' {
				st = stAuthority
			} else {
				st = stPath
				p--
			}
		case stRelative:
			url.Scheme = base.Scheme
			if ch == '/' {
				st = stRelativeSlash
			} else if special() && ch == '\\' {
				st = stRelativeSlash
			} else {
				b := base.Clone()
				url.Username, url.Password, url.Host, url.Port = b.Username, b.Password, b.Host, b.Port
				url.Path, url.Opaque, url.OpaquePath = b.Path, b.Opaque, b.OpaquePath
				url.Query = b.Query
				if ch == '?' {
					url.Query = empty()
					st = stQuery
				} else if ch == '#' {
					url.Fragment = empty()
					st = stFragment
				} else if ch != eof {
					url.Query = nil
					url.shortenPath()
					st = stPath
					p--
				}
			}
		case stRelativeSlash:
			if special() && (ch == '/' || ch == '\\') {
				st = stSpecialAuthorityIgnoreSlashes
			} else if ch == '/' {
				st = stAuthority
			} else {
				b := base.Clone()
				url.Username, url.Password, url.Host, url.Port = b.Username, b.Password, b.Host, b.Port
				st = stPath
				p--
			}
		case stSpecialAuthoritySlashes:
			if ch == '/' && remStarts("/") {
				st = stSpecialAuthorityIgnoreSlashes
				p++
			} else {
				st = stSpecialAuthorityIgnoreSlashes
				p--
			}
		case stSpecialAuthorityIgnoreSlashes:
			if ch != '/' && ch != '\\' {
				st = stAuthority
				p--
			}
		case stAuthority:
			if ch == '@' {
				if atSignSeen {
					buffer = append([]rune("%40"), buffer...)
				}
				atSignSeen = true
				for _, cp := range buffer {
					if cp == ':' && !passwordTokenSeen {
						passwordTokenSeen = true
						continue
					}
					enc := PercentEncodeRune(cp, SetUserinfo)
					if passwordTokenSeen {
						url.Password += enc
					} else {
						url.Username += enc
					}
				}
				buffer = nil
			} else if ch == eof || ch == '/' || ch == '?' || ch == '#' || (special() && ch == '\\') {
				if atSignSeen && len(buffer) == 0 {
					return fail()
				}
				p -= len(buffer) + 1
				buffer = nil
				st = stHost
			} else {
				buffer = append(buffer, ch)
			}
		case stHost, stHostname:
			if overridden && url.Scheme == "file" {
				p--
				st = stFileHost
			} else if ch == ':' && !insideBrackets {
				if len(buffer) == 0 {
					return fail()
				}
				if overridden && override == stHostname {
					return ret("hostname-colon")
				}
				host, ok := e.ParseHost(string(buffer), !special())
				if !ok {
					return fail()
				}
				url.Host = &host
				buffer = nil
				st = stPort
			} else if ch == eof || ch == '/' || ch == '?' || ch == '#' || (special() && ch == '\\') {
				p--
				if special() && len(buffer) == 0 {
					return fail()
				} else if overridden && len(buffer) == 0 && (url.includesCredentials() || url.Port != nil) {
					return ret("host-empty-creds")
				}
				host, ok := e.ParseHost(string(buffer), !special())
				if !ok {
					return fail()
				}
				url.Host = &host
				buffer = nil
				st = stPathStart
				if overridden {
					return ret("host-set")
				}
			} else {
				if ch == '[' {
					insideBrackets = true
				}
				if ch == ']' {
					insideBrackets = false
				}
				buffer = append(buffer, ch)
			}
		case stPort:
			if ch != eof && isDigit(ch) {
				buffer = append(buffer, ch)
			} else if ch == eof || ch == '/' || ch == '?' || ch == '#' || (special() && ch == '\\') || overridden {
				if len(buffer) != 0 {
					port := 0
					for _, d := range buffer {
						port = port*10 + int(d-'0')
						if port > 65535 {
							return fail()
						}
					}
					if dp, ok := specialSchemes[url.Scheme]; ok && dp == port {
						url.Port = nil
					} else {
						url.Port = &port
					}
					buffer = nil
				}
				if overridden {
					return ret("port-done")
				}
				st = stPathStart
				p--
			} else {
				return fail()
			}
		case stFile:
			url.Scheme = "file"
			url.Host = empty()
			if ch == '/' || ch == '\\' {
				st = stFileSlash
			} else if base != nil && base.Scheme == "file" {
				b := base.Clone()
				url.Host, url.Path, url.Opaque, url.OpaquePath, url.Query = b.Host, b.Path, b.Opaque, b.OpaquePath, b.Query
				if ch == '?' {
					url.Query = empty()
					st = stQuery
				} else if ch == '#' {
					url.Fragment = empty()
					st = stFragment
				} else if ch != eof {
					url.Query = nil
					if !startsWithWindowsDriveLetter(fromPointer()) {
						url.shortenPath()
					} else {
						url.Path = nil
					}
					st = stPath
					p--
				}
			} else {
				st = stPath
				p--
			}
		case stFileSlash:
			if ch == '/' || ch == '\\' {
				st = stFileHost
			} else {
				if base != nil && base.Scheme == "file" {
					if base.Host != nil {
						h := *base.Host
						url.Host = &h
					} else {
						url.Host = nil
					}
					if !startsWithWindowsDriveLetter(fromPointer()) && len(base.Path) > 0 && isNormalizedWindowsDriveLetter(base.Path[0]) {
						url.Path = append(url.Path, base.Path[0])
					}
				}
				st = stPath
				p--
			}
		case stFileHost:
			if ch == eof || ch == '/' || ch == '\\' || ch == '?' || ch == '#' {
				p--
				if !overridden && isWindowsDriveLetter(buffer) {
					st = stPath
				} else if len(buffer) == 0 {
					url.Host = empty()
					if overridden {
						return ret("filehost-empty")
					}
					st = stPathStart
				} else {
					host, ok := e.ParseHost(string(buffer), !special())
					if !ok {
						return fail()
					}
					if host == "localhost" {
						host = ""
					}
					url.Host = &host
					if overridden {
						return ret("filehost-set")
					}
					buffer = nil
					st = stPathStart
				}
			} else {
				buffer = append(buffer, ch)
			}
		case stPathStart:
			if special() {
				st = stPath
				if ch != '/' && ch != '\\' {
					p--
				}
			} else if !overridden && ch == '?' {
				url.Query = empty()
				st = stQuery
			} else if !overridden && ch == '#' {
				url.Fragment = empty()
				st = stFragment
			} else if ch != eof {
				st = stPath
				if ch != '/' {
					p--
				}
			} else if overridden && url.Host == nil {
				url.Path = append(url.Path, "")
			}
		case stPath:
			if ch == eof || ch == '/' || (special() && ch == '\\') || (!overridden && (ch == '?' || ch == '#')) {
				buf := string(buffer)
				slash := ch == '/' || (special() && ch == '\\')
				if isDoubleDot(buf) {
					url.shortenPath()
					if !slash {
						url.Path = append(url.Path, "")
					}
				} else if isSingleDot(buf) && !slash {
					url.Path = append(url.Path, "")
				} else if !isSingleDot(buf) {
					if url.Scheme == "file" && len(url.Path) == 0 && isWindowsDriveLetter(buffer) {
						buffer[1] = ':'
						buf = string(buffer)
					}
					url.Path = append(url.Path, buf)
				}
				buffer = nil
				if ch == '?' {
					url.Query = empty()
					st = stQuery
				}
				if ch == '#' {
					url.Fragment = empty()
					st = stFragment
				}
			} else {
				buffer = append(buffer, []rune(PercentEncodeRune(ch, SetPath))...)
			}
		case stOpaquePath:
			if ch == '?' {
				url.Query = empty()
				st = stQuery
			} else if ch == '#' {
				url.Fragment = empty()
				st = stFragment
			} else if ch != eof {
				url.OpaquePath += PercentEncodeRune(ch, SetC0Control)
			}
		case stQuery:
			if (!overridden && ch == '#') || ch == eof {
				set := Set(SetQuery)
				if special() {
					set = SetSpecialQuery
				}
				q := *url.Query + PercentEncodeString(string(buffer), set)
				url.Query = &q
				buffer = nil
				if ch == '#' {
					url.Fragment = empty()
					st = stFragment
				}
			} else if ch != eof {
				buffer = append(buffer, ch)
			}
		case stFragment:
			if ch != eof {
				f := *url.Fragment + PercentEncodeRune(ch, SetFragment)
				url.Fragment = &f
			}
		}
		if p >= len(in) {
			break
		}
		p++
	}
	return url, true
}
