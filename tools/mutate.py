#!/usr/bin/env python3
"""tools/mutate.py — systematic sensitivity test of the checks (not part of any registered check).

Generates single-point mutants of the library's non-test sources with a few classic operators
(relational / logical operator replacement, boolean and small-integer constant replacement, statement
deletion), and for each one:
  1. applies it to a scratch copy of /repo (outside /repo and /verif), `go build`;
  2. runs the repository's own suite; a mutant the suite kills is dropped (the question is what the
     suite does NOT see);
  3. runs the quick checks one after the other (most general first) against the copy until one reports
     a violation.
Prints one line per mutant: KILLED-BY-SUITE / DETECTED <check> / SURVIVED / INCONCLUSIVE, and keeps the
survivors' diffs under the output directory for triage (survivors are equivalent mutants or gaps).

usage: tools/mutate.py <out dir> [--files f1,f2] [--max N] [--stride K] [--offset J] [--ops 1|2] [--list] [--only-file tags.txt]
"""
import os, re, shutil, subprocess, sys, tempfile, json, hashlib

REPO = "/repo"
VERIF = os.path.dirname(os.path.dirname(os.path.abspath(__file__)))
FILES = ["url/parser.go", "url/hostparser.go", "url/url.go", "url/searchparams.go", "url/path.go", "url/inputstring.go",
         "url/codesets.go", "url/errorhandler.go", "url/parseroptions.go", "canonicalizer/canonicalizer.go",
         "canonicalizer/options.go", "canonicalizer/profiles.go", "errors/errors.go"]
ORDER = ["C01", "C05", "C04", "C02", "C16", "C17", "C11", "C12", "C19", "C15", "C03", "C06", "C07", "C08", "C09", "C10", "C13", "C18", "C20", "C14"]
ENV = dict(os.environ, GOFLAGS="-mod=mod", GOPROXY="off", GOSUMDB="off", GOTOOLCHAIN="local")

REPL = [
    (r"==", "!="), (r"!=", "=="), (r"<=", "<"), (r">=", ">"), (r"(?<![<\-=!>])<(?![=<\-])", "<="), (r"(?<![>\-=!<])>(?![=>])", ">="),
    (r"&&", "||"), (r"\|\|", "&&"), (r"\btrue\b", "false"), (r"\bfalse\b", "true"),
    (r"\+ 1\b", "+ 2"), (r"- 1\b", "- 0"), (r"\b0x7f\b", "0x7e"), (r"\b255\b", "256"), (r"\b65535\b", "65536"), (r"\b8\b", "9"), (r"\b4\b", "5"),
]

# second operator set (--ops 2): whole-condition negation, continue/break, compound assignment sign,
# slice bound shifts, dropped negation, length off-by-one, further small constants, character and
# string literal replacement
REPL2 = [
    (r"\bcontinue\b", "break"), (r"\bbreak\b", "continue"), (r"\+=", "-="), (r"-=", "+="),
    (r"\[(\w+):\]", r"[\1+1:]"), (r"\[:(\w+)\]", r"[:\1-1]"), (r"!(?=[A-Za-z_(])", ""),
    (r"\blen\((\w+(?:\.\w+)*)\)", r"(len(\1)-1)"), (r"\blen\((\w+(?:\.\w+)*)\)", r"(len(\1)+1)"),
    (r"(?<![\w.])0(?![\w.])", "1"), (r"(?<![\w.+\- ])1(?![\w.])", "2"), (r"(?<![\w.])2(?![\w.])", "3"), (r"(?<![\w.])3(?![\w.])", "4"),
    (r"(?<![\w.])10(?![\w.])", "9"), (r"(?<![\w.])16(?![\w.])", "15"), (r"(?<![\w.])0x80(?![\w.])", "0x81"), (r"(?<![\w.])0xff(?![\w.])", "0xfe"),
    (r"\bnil\b(?= *\{)", "nil"),
]
COND = re.compile(r"^(\s*(?:\} else )?if )(.*)( \{)$")
CHARLIT = re.compile(r"'(\\.|[^'\\])'")
STRLIT = re.compile(r'"((?:[^"\\]|\\.)+)"')

def mutants2_of(path, text):
    lines = text.split("\n")
    in_block_comment = False
    in_raw = False
    for i, line in enumerate(lines):
        s = line.strip()
        if line.count("`") % 2 == 1:
            in_raw = not in_raw
            continue
        if in_raw:
            continue
        if s.startswith("/*"):
            in_block_comment = True
        if in_block_comment:
            if "*/" in s:
                in_block_comment = False
            continue
        if not s or s.startswith("//") or s.startswith("import") or s.startswith("package") or s.startswith('"'):
            continue
        def emit(desc, new):
            return (i, desc, "\n".join(lines[:i] + [new] + lines[i + 1:]))
        m = COND.match(line)
        if m:
            cond = m.group(2)
            init = ""
            if ";" in cond and '"' not in cond and "'" not in cond:
                init, cond = cond.rsplit(";", 1)
                init += "; "
                cond = cond.strip()
            yield emit("negate condition", m.group(1) + init + "!(" + cond + ")" + m.group(3))
        code = line.split("//")[0] if '"' not in line else line
        for pat, rep in REPL2:
            for mm in re.finditer(pat, code):
                pre = code[:mm.start()]
                if pre.count('"') % 2 == 1 or pre.count("'") % 2 == 1:
                    continue
                new = line[:mm.start()] + mm.expand(rep) + line[mm.end():]
                if new != line:
                    yield emit("%s -> %s" % (mm.group(0), mm.expand(rep)), new)
        for mm in CHARLIT.finditer(code):
            if code[:mm.start()].count('"') % 2 == 1:
                continue
            rep = "'~'" if mm.group(0) != "'~'" else "'!'"
            yield emit("%s -> %s" % (mm.group(0), rep), line[:mm.start()] + rep + line[mm.end():])
        for mm in STRLIT.finditer(code):
            if code[:mm.start()].count("'") % 2 == 1:
                continue
            body = mm.group(1)
            if len(body) > 40:
                continue
            rep = '"' + body + 'x"'
            yield emit("%s -> %s" % (mm.group(0), rep), line[:mm.start()] + rep + line[mm.end():])

def mutants_of(path, text):
    lines = text.split("\n")
    in_block_comment = False
    for i, line in enumerate(lines):
        s = line.strip()
        if s.startswith("/*"):
            in_block_comment = True
        if in_block_comment:
            if "*/" in s:
                in_block_comment = False
            continue
        if not s or s.startswith("//") or s.startswith("import") or s.startswith("package") or s.startswith('"'):
            continue
        code = line.split("//")[0] if '"' not in line else line
        for pat, rep in REPL:
            for m in re.finditer(pat, code):
                # skip matches inside string literals (crude: odd number of quotes before)
                if code[:m.start()].count('"') % 2 == 1 or code[:m.start()].count("'") % 2 == 1 or code[:m.start()].count("`") % 2 == 1:
                    continue
                new = line[:m.start()] + rep + line[m.end():]
                yield (i, "%s -> %s" % (m.group(0), rep), "\n".join(lines[:i] + [new] + lines[i + 1:]))
        # statement deletion: simple call or assignment statements
        if re.match(r"^\t+[A-Za-z_][A-Za-z0-9_.\[\]\*]*(\(.*\)|\s*(=|\+=|:=)\s*.+)$", line) and not s.startswith(("return", "if", "for", "switch", "case", "func", "defer", "go ", "var ", "type ")) and not s.endswith("{"):
            if ":=" in line:
                continue  # deleting a declaration rarely compiles
            yield (i, "delete statement", "\n".join(lines[:i] + ["\t// (deleted)"] + lines[i + 1:]))

def run(cmd, cwd, timeout):
    try:
        p = subprocess.run(cmd, cwd=cwd, env=ENV, stdout=subprocess.PIPE, stderr=subprocess.STDOUT, timeout=timeout)
        return p.returncode, p.stdout.decode("utf-8", "replace")
    except subprocess.TimeoutExpired:
        return 124, "timeout"

def main():
    out = sys.argv[1]
    os.makedirs(out, exist_ok=True)
    files, maxn, stride, offset, ops, only = FILES, 10**9, 1, 0, "1", None
    args = sys.argv[2:]
    while args:
        a = args.pop(0)
        if a == "--files": files = args.pop(0).split(",")
        elif a == "--max": maxn = int(args.pop(0))
        elif a == "--stride": stride = int(args.pop(0))
        elif a == "--offset": offset = int(args.pop(0))
        elif a == "--ops": ops = args.pop(0)
        elif a == "--list": ops = ops + "L"
        elif a == "--only-file": only = set(l.strip() for l in open(args.pop(0)) if l.strip())
    scratch = tempfile.mkdtemp(prefix="verif-mutate-", dir="/tmp")
    try:
        subprocess.run(["cp", "-r", REPO + "/.", scratch], check=True)
        shutil.rmtree(os.path.join(scratch, ".git"), ignore_errors=True)
        idx = done = 0
        for f in files:
            orig = open(os.path.join(REPO, f)).read()
            for (ln, desc, mutated) in (mutants2_of(f, orig) if ops.startswith("2") else mutants_of(f, orig)):
                if only is not None and ("%s:%d %s" % (f, ln + 1, desc)) not in only:
                    continue
                idx += 1
                if (idx - 1) % stride != offset:
                    continue
                if done >= maxn:
                    break
                done += 1
                tag = "%s:%d %s" % (f, ln + 1, desc)
                if ops.endswith("L"):
                    print("MUTANT %s" % tag, flush=True); continue
                open(os.path.join(scratch, f), "w").write(mutated)
                try:
                    code, _ = run(["go", "build", "./..."], scratch, 120)
                    if code != 0:
                        print("NOCOMPILE %s" % tag, flush=True); continue
                    code, _ = run(["go", "test", "-vet=off", "-count=1", "./..."], scratch, 300)
                    if code != 0:
                        print("KILLED-BY-SUITE %s" % tag, flush=True); continue
                    verdict = "SURVIVED"
                    for cid in ORDER:
                        env = dict(ENV, VERIF_REPO=scratch, VERIF_SELFTEST="1")
                        try:
                            p = subprocess.run(["./check", cid, "--tier", "quick"], cwd=VERIF, env=env, stdout=subprocess.PIPE, stderr=subprocess.STDOUT, timeout=900)
                            rc = p.returncode
                        except subprocess.TimeoutExpired:
                            rc = 124
                        if rc == 1:
                            verdict = "DETECTED %s" % cid; break
                        if rc not in (0, 1):
                            verdict = "INCONCLUSIVE %s (exit %d)" % (cid, rc)
                            # keep going: another check may still give a verdict
                    print("%s %s" % (verdict, tag), flush=True)
                    if not verdict.startswith("DETECTED"):
                        h = hashlib.sha1(tag.encode()).hexdigest()[:10]
                        with open(os.path.join(out, "survivor-%s.txt" % h), "w") as fh:
                            fh.write(tag + "\n" + verdict + "\n\n")
                            ol, ml = orig.split("\n"), mutated.split("\n")
                            fh.write("- " + ol[ln] + "\n+ " + ml[ln] + "\n")
                finally:
                    open(os.path.join(scratch, f), "w").write(orig)
    finally:
        shutil.rmtree(scratch, ignore_errors=True)
    print("MUTATE-DONE")

if __name__ == "__main__":
    main()
