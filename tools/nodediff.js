// tools/nodediff.js <dump.jsonl> : development tool (DESIGN §3.3 item 5). Reads what the reference model says
// (written by TestNodeDump) and asks node's URL class — a third, unrelated implementation of the standard —
// the same questions. Prints disagreements bucketed by a crude signature. Not a check: node follows the living
// standard, the model the 24 May 2023 snapshot, so the buckets are read by hand.
const fs = require('fs'), rl = require('readline');
const names = ["href","protocol","username","password","host","hostname","port","pathname","search","hash"];
const obs = u => names.map(n => u[n]);
const buckets = new Map(); let n = 0, agree = 0, steps = 0, nq = 0;
function cls(r){const h=(r.obs&&r.obs[1])||'';return ['http:','https:','ws:','wss:','ftp:'].includes(h)?'special':h==='file:'?'file':h?'nonspecial':'-';}
function diff(kind, rec, detail) {
  kind = kind + ' | ' + cls(rec);
  if (process.env.ASCII_ONLY && /[^\x00-\x7f]/.test(detail)) kind += ' (non-ASCII involved)';
  if (kind.startsWith('parse: model fails, node ok') && rec.input.includes('#')) kind += ' (input has #: ada decides the opaque-base rule on the presence of a fragment)';
  const b = buckets.get(kind) || {count: 0, samples: []};
  b.count++; if (b.samples.length < +(process.env.SAMPLES || 6)) b.samples.push(detail);
  buckets.set(kind, b);
}
const known = (process.env.SKIP || '').split(',').filter(Boolean);
(async () => {
  for await (const line of rl.createInterface({input: fs.createReadStream(process.argv[2])})) {
    if (!line) continue; const r = JSON.parse(line); n++;
    if (r.kind === 'q') {
      // (a leading '?' is removed by the URLSearchParams constructor, not by the parser: skipped. A maximal invalid
      // UTF-8 subpart is ONE U+FFFD for the Encoding Standard's decoder and one per byte for the properties' reading
      // of a Go string — "bytes that are not valid UTF-8 count as U+FFFD" —: runs of U+FFFD are collapsed on both sides.
      // Code-unit and code-point order differ for a supplementary-plane character against U+E000..U+FFFF: C11 does not
      // judge those sorts, and they are reported in a bucket of their own here.)
      const q = r.query || ''; if (q.startsWith('?')) continue;
      const col = l => JSON.stringify(l).replace(/\uFFFD+/g, '\uFFFD');
      const sp = new URLSearchParams(q); const got = [...sp]; nq++;
      if (col(got) !== col(r.pairs || [])) { diff('urlencoded parse', r, JSON.stringify({query: q, model: r.pairs, node: got})); continue; }
      if (col(got) === JSON.stringify(r.pairs || []) && sp.toString() !== (r.ser || '')) { diff('urlencoded serialize', r, JSON.stringify({query: q, model: r.ser, node: sp.toString()})); continue; }
      sp.sort(); const sorted = [...sp];
      if (col(sorted) !== col(r.sorted || [])) { const amb = /[\uD800-\uDBFF]/.test(q + JSON.stringify(got)) && /[\uE000-\uFFFF]/.test(JSON.stringify(got)); diff('urlencoded sort' + (amb ? ' (supplementary vs U+E000..U+FFFF: code-unit order, not judged by C11)' : ''), r, JSON.stringify({query: q, model: r.sorted, node: sorted})); continue; }
      agree++; continue;
    }
    let u = null;
    try { u = r.has_base ? new URL(r.input, r.base) : new URL(r.input); } catch (e) {}
    if ((u !== null) !== r.ok) { diff(r.ok ? 'parse: model ok, node fails' : 'parse: model fails, node ok', r, JSON.stringify({input: r.input, base: r.has_base ? r.base : undefined, model: r.obs && r.obs[0], node: u && u.href})); continue; }
    if (!u) { agree++; continue; }
    let o = obs(u), bad = false;
    for (let i = 0; i < 10; i++) if (o[i] !== r.obs[i]) { diff('parse: ' + names[i], r, JSON.stringify({input: r.input, base: r.has_base ? r.base : undefined, model: r.obs[i], node: o[i]})); bad = true; break; }
    if (bad) continue;
    for (const s of (r.steps || [])) {
      const before = u.href;
      try { u[s.setter] = s.value; } catch (e) { diff('setter throws ' + s.setter, r, JSON.stringify({before, value: s.value, err: String(e)})); bad = true; break; }
      o = obs(u); steps++;
      for (let i = 0; i < 10; i++) if (o[i] !== s.obs[i]) { diff('set ' + s.setter + ': ' + names[i], r, JSON.stringify({before, value: s.value, model: s.obs[i], node: o[i]})); bad = true; break; }
      if (bad) break;
    }
    if (!bad) agree++;
  }
  console.log(`${n} cases, ${agree} in full agreement, ${steps} setter steps compared, ${nq} form-urlencoded strings`);
  for (const [k, b] of [...buckets].sort((a, b) => b[1].count - a[1].count)) { console.log(`\n== ${k}: ${b.count}`); for (const s of b.samples) console.log('   ' + s.slice(0, 400)); }
})();
