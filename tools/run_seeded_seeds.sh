#!/bin/sh
# tools/run_seeded_seeds.sh <seed> [<seed> ...] : the seeded matrix at other seeds (marginal detections show as misses)
cd "$(dirname "$0")/.."
for s in "$@"; do
  for d in seeded/*/; do
    n=$(basename "$d"); id=${n%%-*}
    r=$(tools/selftest.sh "$(pwd)/$d/patch.diff" $id quick $s 2>&1 | tail -1)
    case "$r" in *"exit 1") ;; *) echo "MISS seed=$s $n: $r";; esac
  done
  echo "SEED $s DONE"
done
