#!/bin/sh
# tools/run_seeded_ids.sh <id> [<id> ...] : like tools/run_seeded.sh (quick tier), restricted to the seeded
# changes and hand-made mutants of the given properties; used after a generator or oracle of those checks changed.
cd "$(dirname "$0")/.."
for id in "$@"; do
  for d in seeded/$id-*/; do
    [ -d "$d" ] || continue
    n=$(basename "$d")
    r=$(tools/selftest.sh "$(pwd)/$d/patch.diff" $id quick 2>&1 | tail -1)
    echo "$n: $r"
  done
  for p in mutants/$id-*.patch; do
    [ -f "$p" ] || continue
    n=$(basename "$p" .patch)
    r=$(tools/selftest.sh "$(pwd)/$p" $id quick 2>&1 | tail -1)
    echo "$n: $r"
  done
done
echo MATRIX-DONE
