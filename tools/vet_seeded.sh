#!/bin/sh
# tools/vet_seeded.sh <property id> <k> [tier] : vets the sub-agent mutant /tmp/seed-<id>-out/m<k>.patch:
#  1. applies to a clean scratch copy of /repo, builds, repository suite passes;
#  2. the demonstration fails with the patch and passes without it;
#  3. runs the property's check against the patched copy.
# Prints a summary; on success of 1+2 copies the files to /verif/seeded/<id>-m<k>/ with meta.json.
set -u
ID="$1"; K="$2"; TIER="${3:-quick}"
SRC="/tmp/seed-$ID-out"
VERIF_DIR="$(cd "$(dirname "$0")/.." && pwd)"
PATCH="$SRC/m$K.patch"; DEMO="$SRC/m${K}_demo_test.go"
[ -f "$PATCH" ] && [ -f "$DEMO" ] || { echo "VET $ID m$K: files missing"; exit 2; }
PLACE=$(head -3 "$DEMO" | grep -o "place in: *[a-z/]*" | sed 's/place in: *//' | head -1)
[ -n "$PLACE" ] || PLACE="url/"
SCR="$(mktemp -d /tmp/verif-vet-XXXXXX)"
trap 'rm -rf "$SCR"' EXIT
cp -r /repo/. "$SCR/"; rm -rf "$SCR/.git"
cd "$SCR"
export GOFLAGS=-mod=mod GOPROXY=off GOSUMDB=off
RACE=""; grep -qi "race" "$SRC/m$K.md" 2>/dev/null && [ "$ID" = C14 ] && RACE="-race"
# demo on the unpatched tree
cp "$DEMO" "$SCR/$PLACE/zz_seeded_demo_test.go"
go test $RACE -vet=off -count=1 ./$PLACE >/tmp/vet-$ID-$K-clean.log 2>&1; CLEAN=$?
rm "$SCR/$PLACE/zz_seeded_demo_test.go"
git init -q . 2>/dev/null; git apply "$PATCH" 2>/tmp/vet-apply.err || patch -p1 < "$PATCH" >/dev/null 2>&1 || { echo "VET $ID m$K: patch does not apply: $(cat /tmp/vet-apply.err)"; exit 2; }
rm -rf .git
go build ./... || { echo "VET $ID m$K: does not compile"; exit 2; }
go test -vet=off -count=1 ./... >/tmp/vet-$ID-$K-suite.log 2>&1; SUITE=$?
cp "$DEMO" "$SCR/$PLACE/zz_seeded_demo_test.go"
go test $RACE -vet=off -count=1 ./$PLACE >/tmp/vet-$ID-$K-patched.log 2>&1; PATCHED=$?
rm "$SCR/$PLACE/zz_seeded_demo_test.go"
echo "VET $ID m$K: suite-with-patch exit=$SUITE demo-clean exit=$CLEAN demo-patched exit=$PATCHED (want 0 0 nonzero) race=$RACE"
if [ $SUITE != 0 ] || [ $CLEAN != 0 ] || [ $PATCHED = 0 ]; then echo "VET $ID m$K: REJECTED"; exit 3; fi
cd "$VERIF_DIR"
OUT=$(VERIF_REPO="$SCR" VERIF_SELFTEST=1 ./check "$ID" --tier "$TIER" 2>&1); CODE=$?
echo "$OUT" | grep -E "violation|VIOLATION|INCONCLUSIVE" | head -3 | cut -c1-500
echo "VET $ID m$K: check $ID ($TIER) exit=$CODE"
D="$VERIF_DIR/seeded/$ID-${TAG:-}m$K"; mkdir -p "$D"
cp "$PATCH" "$D/patch.diff"; cp "$DEMO" "$D/demo_test.go"; cp "$SRC/m$K.md" "$D/notes.md" 2>/dev/null
exit 0
