#!/usr/bin/env python3
"""Regenerates /verif/MANIFEST.json from the table below (kept next to the checks so that the
manifest stays valid and in step with what is actually built)."""
import json, os, sys

ROOT = os.path.dirname(os.path.dirname(os.path.abspath(__file__)))

MODEL = ("trusted base: the reference model in harness/spec (self-checked against the 1067 pinned WPT vectors on every run), "
         "rapid v1.3.0, the Go toolchain; IDNA (UTS #46) mapping delegated to the implementation as the property allows")

CHECKS = {
 "C01": dict(
   technique="property-based differential testing (rapid) against an independent reference model of the WHATWG basic URL parser + native coverage-guided fuzzing of the same oracle",
   text="Generated (input, base) pairs from a URL grammar, mutated WPT vectors, token soup and arbitrary bytes are parsed through all three entry points and compared on failure/success, Href and all nine getters with a reference model written from the standard. Exploration: holds on every generated case; the class histogram in the evidence shows every parser state and failure state being entered.",
   ref="DESIGN.md §6 C01, §3", note=MODEL),
}

NOT_YET = {}

def main():
    props = [json.loads(l) for l in open(os.path.join(ROOT, "properties.jsonl"))]
    checks, na = [], []
    for p in props:
        pid = p["id"]
        if pid in CHECKS:
            c = CHECKS[pid]
            checks.append({
                "property_id": pid,
                "quick_cmd": "./check %s --tier quick" % pid,
                "thorough_cmd": "./check %s --tier thorough" % pid,
                "evidence_file": "/verif/evidence/%s.json" % pid,
                "replay_cmd_template": "./check %s --replay {path}" % pid,
                "engine": "vcheck",
                "level_claimed": {"category": "exploration", "text": c["text"], "design_ref": c["ref"]},
                "level_note": c["note"],
                "technique": c["technique"],
            })
        else:
            na.append({"property_id": pid, "reason": NOT_YET.get(pid, "check not built yet in this session (planned with property-based testing per DESIGN.md §6); not claimed until it exists and is silent on the unchanged tree")})
    m = {
        "version": 1,
        "setup_cmd": "./setup.sh",
        "hooks": {
            "guard": "verif",
            "enable": "no hooks: every check observes the library through its public API; nothing in /repo is guarded by the tag",
            "baseline_off_cmd": "cd /repo && go test -vet=off -count=1 ./...",
            "source_commits": [],
            "add_only": True,
        },
        "engines": [{
            "name": "vcheck", "path": "/verif/harness",
            "serves_properties": [c["property_id"] for c in checks],
            "kind_free_text": "Go module: reference model (spec), rapid generators (gen), per-property check functions with rapid properties, native fuzz targets and replay entry points (props), driver (cmd/vcheck) that shards by seed, merges statistics and writes evidence",
        }],
        "checks": checks,
        "not_applicable": na,
        "notes": "All checks: ./check <id> --tier quick|thorough [--seed N]; VERIF_SEED and VERIF_TIER are honoured. Exit 0 held / 1 VIOLATION line printed / 2 inconclusive (build failure, worker death, deadline). Known findings: known_findings.txt + known/*.json.",
    }
    json.dump(m, open(os.path.join(ROOT, "MANIFEST.json"), "w"), indent=1)
    print("MANIFEST.json: %d checks, %d not_applicable" % (len(checks), len(na)))

if __name__ == "__main__":
    main()
