#!/usr/bin/env python3
"""Regenerates /verif/MANIFEST.json from the table below (kept next to the checks so that the
manifest stays valid and in step with what is actually built)."""
import json, os, sys

ROOT = os.path.dirname(os.path.dirname(os.path.abspath(__file__)))

MODEL = ("trusted base: the reference model in harness/spec (self-checked against the 1067 pinned WPT vectors on every run), "
         "rapid v1.3.0, the Go toolchain; IDNA (UTS #46) mapping delegated to the implementation as the property allows")

CHECKS = {
 "C01": dict(
   technique="property-based differential testing (rapid) against an independent reference model of the WHATWG basic URL parser + native coverage-guided fuzzing of the same oracle; bounded-exhaustive enumeration of all inputs of up to 3 (quick) / 5 (thorough) critical tokens x 8 bases against the same oracle; lock-step histories of setters and resolutions against the model (C01.hist: (*Url).Parse on URL values no string parses to), random and bounded-exhaustive",
   text="Generated (input, base) pairs from a URL grammar, mutated WPT vectors, token soup and arbitrary bytes are parsed through all three entry points and compared on failure/success, Href and all nine getters with a reference model written from the standard. Exploration: holds on every generated case; the class histogram in the evidence shows every parser state and failure state being entered.",
   ref="DESIGN.md §6 C01, §3", note=MODEL),
 "C03": dict(
   technique="stateful property-based testing (rapid): round-trip oracle url.Parse(u.Href()) == u after the parse and after every setter of a generated history; exemption computed from the reference model; bounded-exhaustive enumeration of all 2-step (quick) / 3-step (thorough) setter histories over a 51-entry value table x 15 starts; native fuzzing",
   text="Generated start URLs and setter histories (a step in twelve continues on a Clone of the URL: a copy is a reachable URL); after every step the serialization must parse again to the identical URL (Href + 9 getters). The statement's exception is computed per state from the reference model (dropped only where the standard's own state does not survive serialize-then-parse), not enumerated.",
   ref="DESIGN.md §6 C03, §7.9", note="trusted base: url.Parse itself as the inverse (round trip), the reference model for the exemption only, rapid"),
 "C04": dict(
   technique="stateful property-based testing (rapid): validity predicate and getter-composition invariant evaluated after every step of generated parse/setter/resolve histories; bounded-exhaustive enumeration of all 2-/3-step setter histories (+ a resolution) over a 51-entry value table x 15 starts; native fuzzing",
   text="Generated start URLs followed by setter, resolve and continue-on-a-Clone steps; after every step a validity predicate written from the statement (scheme syntax, host/path/credentials/port structure, printable ASCII, percent-encode-set and forbidden-code-point freedom, canonical IPv6) and the composition of Href from the individual getters are evaluated.",
   ref="DESIGN.md §6 C04", note="trusted base: the predicate in harness/props/c04.go (written from the statement and the standard's set definitions), rapid"),
 "C05": dict(
   technique="stateful property-based differential testing (rapid): lock-step comparison of generated setter histories against the reference model's API setter algorithms; bounded-exhaustive enumeration of single setter calls (all values of up to 2/3 critical tokens x 17 starts x 9 setters) and of all 2-/3-step setter histories; native fuzzing",
   text="Generated start URLs and 1..8 (setter, value) steps (a step in twelve continues on a Clone of the implementation's URL; in a quarter of the histories nothing is read from the URL between the steps and the comparison is made after the last step only) applied in lock step to the implementation and to the reference model's setters; Href and all nine getters are compared after every step, so partial application and rejection are checked exactly. The evidence histogram shows every setter outcome (guard, failure state, override early return) and all 81 ordered setter pairs.",
   ref="DESIGN.md §6 C05, §3", note=MODEL),
 "C19": dict(
   technique="stateful property-based testing (rapid): derived accessors recomputed from primary getters after every step of generated parse/setter/resolve/clone histories; bounded-exhaustive enumeration of all 2-/3-step setter histories followed by Clone and a resolution; native fuzzing",
   text="Generated histories biased to alternate IPv4/IPv6/domain hosts, ports 0/default/empty and scheme changes; after every step IsIPv4, IsIPv6, DecodedPort, Scheme/Protocol, Query/Search, Fragment/Hash, OpaquePath and IsSpecialScheme are recomputed from Hostname, Port, Protocol and Href and compared.",
   ref="DESIGN.md §6 C19", note="trusted base: the recomputation in harness/props/c19.go, rapid"),
 "C06": dict(
   technique="property-based testing (rapid) of six metamorphic / algebraic resolution laws relating several runs of the implementation (no model)",
   text="Generated bases of every kind, references conditioned on the base, a second unrelated base, fragment and query texts; the six laws of the statement (three entry points agree, absolute is absolute, empty reference, fragment-only incl. opaque-path bases, query-only, scheme inheritance) are evaluated on every case; the histogram shows law x base kind.",
   ref="DESIGN.md §6 C06", note="trusted base: the law formulations in harness/props/c06.go, rapid; no reference model involved"),
 "C07": dict(
   technique="property-based testing (rapid) with a constructive value oracle (address value drawn first, spellings rendered from it), an independent ends-in-a-number checker and differential comparison with the reference model's host parser; bounded-exhaustive enumeration of all hosts of up to 4/6 critical tokens; native fuzzing",
   text="IPv4-ish hosts from three generators (value-first, text-first over the critical alphabet, boundary table) in all special schemes and as opaque hosts, through Parse and the host setters. Recognition is decided by an independently written checker, accepted values by the drawn 32-bit value, everything else by the reference model.",
   ref="DESIGN.md §6 C07", note=MODEL),
 "C08": dict(
   technique="property-based testing (rapid) with a constructive value oracle and an independent canonical serializer, differential comparison with the reference model for near-miss texts, exhaustive enumeration of the 256 zero-run shapes; bounded-exhaustive enumeration of all bracket contents of up to 4/6 critical tokens; native fuzzing",
   text="IPv6 texts from value-first, text-first and mutation generators inside every bracket arrangement, in special / non-special / file URLs, with and without port, through Parse and the host setters; accept/reject per the standard's IPv6 parser with exactly one bracket pair, output equal to an independent canonical serializer, value preserved, reparse is the identity. The serializer's compression choice is enumerated over all 256 zero/non-zero patterns.",
   ref="DESIGN.md §6 C08", note=MODEL),
 "C09": dict(
   technique="property-based metamorphic testing (rapid): one decoded host rendered in four spellings (case flips, whole-code-point percent-encodings) must give one result; exactness oracle for pure-ASCII hosts",
   text="Decoded hosts built from ASCII, mapped, ignored, joiner, RTL, fullwidth and ACE labels are written in four spellings and parsed in the six special schemes: all spellings must agree; results must be lowercase ASCII without forbidden domain code points; pure-ASCII non-ACE hosts must be exactly their lowercased form (or C07's result, or rejected for a forbidden code point); file + localhost gives the empty host.",
   ref="DESIGN.md §6 C09", note="trusted base: the spelling construction in harness/props/c09.go; UTS #46 mapping taken as given; reference model only for the ends-in-a-number sub-case"),
 "C10": dict(
   technique="exhaustive enumeration of all code points x named sets against tables from the standard, plus property-based testing (rapid) of copy-on-derive programs and of the encode/decode string laws",
   text="Membership of all 0x110000 code points and all 256 bytes in the six named sets is compared exhaustively with tables written from the standard, and every ASCII code point is pushed through every URL component (special and non-special) against the reference model. Random Set/Clear derivation programs must leave every earlier set and all named sets unchanged and differ from the parent exactly on the given bytes. Random strings x named and derived sets check the encode/decode laws of the statement; the decode law is also observed at the host component of a lax-host parser, which has an encoder of its own.",
   ref="DESIGN.md §6 C10", note="trusted base: the set predicates in harness/spec/encode.go (typed from the standard), the model encoder in harness/props/c10.go, rapid"),
 "C11": dict(
   technique="stateful property-based testing (rapid) against a list model with the standard's semantics, differential testing against a reference application/x-www-form-urlencoded parser, and a serialize-parse round trip; bounded-exhaustive enumeration of all queries of up to 4/6 critical tokens; native fuzzing",
   text="Operation sequences on SearchParams are mirrored on an ordered-list model and compared after every step (getters for all names in play; the whole order through Iterate on a twin). Generated query strings are parsed and compared with the reference form-urlencoded parser. Lists of arbitrary pairs are appended, the URL reparsed and the list compared.",
   ref="DESIGN.md §6 C11", note="trusted base: list model and reference codec in harness (written from the standard), rapid; known finding KF-C11-serializer is attributed only when the tree-style serializer explains the entire result"),
 "C12": dict(
   technique="stateful property-based testing (rapid): query/list consistency invariants I1-I4 after every step of generated interleavings of list mutations, SetSearch and other setters over several live handles",
   text="Generated interleavings of SearchParams mutations through several handles (obtained before and after SetSearch), SetSearch calls and other setters; after every step the URL's Query/Search/Href query part equal the list serialization (after list mutations), every handle equals the form-urlencoded parse of the new query (after SetSearch), and other setters leave both alone; list operations on a Clone of the URL or on the result of resolving against it leave the URL and every live handle alone. Lists of up to 40 parameters; the names a replaced list held stay among the names looked up. A quarter of the directly parsed histories are blind: nothing is read between the steps and Query() and all handles are compared with the reference model's query and the list model after the last step only.",
   ref="DESIGN.md §6 C12", note="trusted base: invariants in harness/props/c12.go, reference form-urlencoded parser, rapid"),
 "C13": dict(
   technique="stateful property-based testing (rapid) over two aliased values: snapshot-unchanged invariant for the untouched side and isolated-twin equivalence for the operated side",
   text="Resolve and Clone scenarios with lazily created state present or absent, then operations on either side; the other side's full snapshot must not change and the operated side must equal an isolated twin with the same history.",
   ref="DESIGN.md §6 C13", note="trusted base: snapshot and twin construction in harness/props/c13.go, rapid"),
 "C15": dict(
   technique="property-based metamorphic testing (rapid): one (input, base) pair parsed under the four diagnostic configurations, relations between the runs; error classification against the documented type table and the reference model's failure state",
   text="Inputs biased to produce validation errors are parsed with the default, reporting, fail-on-validation-error and combined parsers; the relations of the statement (reporting is observation only; fail mode is a restriction returning the same URL; without a base it accepts exactly what reporting records nothing for; error types documented and failure marks right; missing-scheme classification) are evaluated on every case.",
   ref="DESIGN.md §6 C15, §7.3", note="trusted base: relations in harness/props/c15.go; reference model only for the missing-scheme clause"),
 "C16": dict(
   technique="property-based testing (rapid) over generated option sets and inputs with one sub-oracle per clause: differential against the reference model + setters (remove-*), list-model (sort), failure-state oracle (default-scheme), metamorphic neutrality (conservative extensions, alone and combined), effect oracles (collapse, replaced sets, skip-equals, added scheme)",
   text="Each case draws a clause of the statement with its option set and input. Neutrality: for 1..4 of 14 parser options with generated encode sets / added schemes, if no option's trigger occurs in the input text the result must equal the default parser's (through url.NewParser and canonicalizer.New). Effects are checked against explicit oracles per clause.",
   ref="DESIGN.md §6 C16", note=MODEL),
 "C17": dict(
   technique="property-based testing (rapid) of the idempotence law p(p(x)) = p(x) over generated profiles (predefined and composed from the canonicalizer's options) and inputs (arbitrary inputs; grammar-generated web URLs in random spellings)",
   text="For WhatWg, WhatWgSortQuery and random compositions of the six canonicalizer options any generated input, and for GoogleSafeBrowsing and Semantic every URL of the ordinary-web-URL grammar in a random spelling (nested encodings, dot segments, case, ports, whitespace), is canonicalized twice; the second result must parse and equal the first. Before each call the same profile canonicalizes the same text under a non-special scheme (results must not depend on earlier calls).",
   ref="DESIGN.md §6 C17, §7.7", note="trusted base: the grammar and renderer in harness/props/web.go, rapid; known findings attributed by exact-result or narrow classifiers (c17.go)"),
 "C18": dict(
   technique="property-based metamorphic testing (rapid): one abstract web URL rendered in two independently drawn equivalent spellings (and a plain one) must canonicalize to one string under generated profiles",
   text="An abstract ordinary web URL is rendered twice with independent random choices among exactly the variations the statement lists, per profile class; both canonical strings must be equal and equal to the canonical form of the plain rendering, which ties the class to one representative. Before each call the same profile canonicalizes the same text under a non-special scheme (results must not depend on earlier calls).",
   ref="DESIGN.md §6 C18", note="trusted base: the grammar and renderer in harness/props/web.go, rapid; findings KF-C18-empty-fragment and KF-C18-nested-dots attributed by counterfactual classifiers"),
 "C02": dict(
   technique="stateful property-based testing / robustness fuzzing (rapid): generated configurations x generated API programs over a register file of URLs, recover() around every step, (nil, nil) contract, hang watchdog confirmed in a fresh process",
   text="A configuration (predefined profile, or 0..6 of 25 options with valued options from families incl. special-scheme maps without file, encoding overrides, generated encode sets, total host callbacks) and a program (initial parse with hostile / arbitrary / very long arguments, then up to 12 setter, resolve, clone, SearchParams (incl. Iterate callbacks that call back into the same list; lists of 9..65 parameters with look-ups around search-setter calls), SetSearchParams, BasicParser with the setters' state overrides, NewUrl, encode/decode and profile operations) are executed with all getters called after every step (a quarter of the programs: only after the last step); any panic, (nil, nil) result or non-returning call is a violation.",
   ref="DESIGN.md §6 C02, §7.8", note="trusted base: recover()/watchdog harness in harness/props/c02.go and harness/core, rapid"),
 "C14": dict(
   technique="property-based testing (rapid) over generated concurrent programs on shared parsers / profiles / base URLs, executed under the Go race detector (-race), with a sequential-equivalence oracle and table-immutability fingerprints",
   text="Generated programs of 2..8 goroutines released from one barrier run read-only operations (parse, resolve against shared bases with and without lazily created state, getters, reads through a parameter-list handle created before sharing (lists of up to 40 parameters), Clone, NewUrl followed by setters on the private value, encode, set derivation) on one shared parser or profile; the race detector's log must not grow, every result must equal the same call run alone on private copies, and all package-level tables must be unchanged.",
   ref="DESIGN.md §6 C14, §8", note="trusted base: Go race detector (happens-before), the harness in harness/props/c14.go, rapid; interleavings are those the scheduler produced, not enumerated"),
 "C20": dict(
   technique="property-based testing (rapid) over generated repetition families plus a fixed family table, with deterministic cost counters (bytes allocated, allocation count, statements executed via a -cover build) and a growth-exponent oracle",
   text="For each repetition family prefix + unit×n + suffix, and two-part family prefix + unit×n + mid + unit2×n + suffix where the second repetition works on what the first built up (fixed list covering every place the statement names, incl. nested escapes and parameters a profile rewrites; generated families by insertion point, units and operation) the measured operation is run at n, 4n and 16n and the growth exponent of bytes allocated, allocation count and (fixed families) statements executed inside the library is computed; a violation needs an exponent above 1.5 at the largest pair and above 1.4 at the pair below. Counters are deterministic; CPU time is not used.",
   ref="DESIGN.md §6 C20, §8", note="trusted base: runtime.MemStats counters, Go coverage counters (go build -cover, runtime/coverage, go tool covdata), the family table in harness/props/c20.go"),
}

NOT_YET = {}

def main():
    props = [json.loads(l) for l in open(os.path.join(ROOT, "properties.jsonl"))]
    checks, na = [], []
    for p in props:
        pid = p["id"]
        if pid in CHECKS:
            c = CHECKS[pid]
            checks.append({
                "property_id": pid,
                "quick_cmd": "./check %s --tier quick" % pid,
                "thorough_cmd": "./check %s --tier thorough" % pid,
                "evidence_file": "/verif/evidence/%s.json" % pid,
                "replay_cmd_template": "./check %s --replay {path}" % pid,
                "engine": "vcheck",
                "level_claimed": {"category": "exploration", "text": c["text"], "design_ref": c["ref"]},
                "level_note": c["note"],
                "technique": c["technique"],
            })
        else:
            na.append({"property_id": pid, "reason": NOT_YET.get(pid, "check not built yet in this session (planned with property-based testing per DESIGN.md §6); not claimed until it exists and is silent on the unchanged tree")})
    m = {
        "version": 1,
        "setup_cmd": "./setup.sh",
        "hooks": {
            "guard": "verif",
            "enable": "no hooks: every check observes the library through its public API; nothing in /repo is guarded by the tag",
            "baseline_off_cmd": "cd /repo && go test -vet=off -count=1 ./...",
            "source_commits": [],
            "add_only": True,
        },
        "engines": [{
            "name": "vcheck", "path": "/verif/harness",
            "serves_properties": [c["property_id"] for c in checks],
            "kind_free_text": "Go module: reference model (spec), rapid generators (gen), per-property check functions with rapid properties, native fuzz targets and replay entry points (props), driver (cmd/vcheck) that shards by seed, merges statistics and writes evidence",
        }],
        "checks": checks,
        "not_applicable": na,
        "notes": "All checks: ./check <id> --tier quick|thorough [--seed N]; VERIF_SEED and VERIF_TIER are honoured. Exit 0 held / 1 VIOLATION line printed / 2 inconclusive (build failure, worker death, deadline). Known findings: known_findings.txt + known/*.json.",
    }
    json.dump(m, open(os.path.join(ROOT, "MANIFEST.json"), "w"), indent=1)
    print("MANIFEST.json: %d checks, %d not_applicable" % (len(checks), len(na)))

if __name__ == "__main__":
    main()
