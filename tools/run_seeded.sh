#!/bin/sh
# tools/run_seeded.sh [tier] : runs every seeded change (seeded/<id>-m<k>/patch.diff) and every hand-made
# mutant (mutants/<id>-*.patch) against its property's check, each on a scratch copy; prints one line each.
TIER="${1:-quick}"
cd "$(dirname "$0")/.."
for d in seeded/*/; do
  n=$(basename "$d"); id=${n%%-*}
  r=$(tools/selftest.sh "$(pwd)/$d/patch.diff" $id $TIER 2>&1 | tail -1)
  echo "$n: $r"
done
for p in mutants/*.patch; do
  n=$(basename "$p" .patch); id=${n%%-*}
  r=$(tools/selftest.sh "$(pwd)/$p" $id $TIER 2>&1 | tail -1)
  echo "$n: $r"
done
