#!/bin/sh
# tools/sweep.sh <tier> <seed> [<seed> ...] : runs every check at the given seeds; prints one line per run
# and every VIOLATION / INCONCLUSIVE line. Used to look for false alarms on the unchanged tree.
TIER="$1"; shift
cd "$(dirname "$0")/.."
for s in "$@"; do
  for id in C01 C02 C03 C04 C05 C06 C07 C08 C09 C10 C11 C12 C13 C14 C15 C16 C17 C18 C19 C20; do
    out=$(./check $id --tier $TIER --seed $s 2>&1); code=$?
    echo "$out" | grep -E "VIOLATION|INCONCLUSIVE|violation:" | cut -c1-600
    echo "$out" | grep -E "^C[0-9]+ (quick|thorough)" | sed "s/$/ exit=$code/"
  done
done
echo SWEEP-DONE
