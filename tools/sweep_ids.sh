#!/bin/sh
# tools/sweep_ids.sh <tier> <seed> <id> [<id> ...] : like sweep.sh, for the listed checks only
TIER="$1"; SEED="$2"; shift 2
cd "$(dirname "$0")/.."
for id in "$@"; do
  out=$(./check $id --tier $TIER --seed $SEED 2>&1); code=$?
  echo "$out" | grep -E "VIOLATION|INCONCLUSIVE|violation:" | cut -c1-600
  echo "$out" | grep -E "^C[0-9]+ (quick|thorough)" | sed "s/$/ exit=$code/"
done
echo SWEEP-DONE
