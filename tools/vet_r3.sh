#!/bin/sh
# tools/vet_r3.sh <area letter> <k> : vets /tmp/r3-<area>-out/m<k>.* (round 3: the property id is on the
# demo's second line "// breaks: Cxx") by handing it to vet_seeded.sh under that property.
A="$1"; K="$2"
SRC="/tmp/${R:-r3}-$A-out"
ID=$(sed -n 2p "$SRC/m${K}_demo_test.go" | grep -o "C[0-9][0-9]" | head -1)
[ -n "$ID" ] || { echo "VET r3 $A m$K: no property id"; exit 2; }
mkdir -p /tmp/seed-$ID-out
cp "$SRC/m$K.patch" /tmp/seed-$ID-out/m9$K.patch; cp "$SRC/m${K}_demo_test.go" /tmp/seed-$ID-out/m9${K}_demo_test.go; cp "$SRC/m$K.md" /tmp/seed-$ID-out/m9$K.md 2>/dev/null
echo "r3 $A m$K -> $ID"
TAG="${R:-r3}${A}" "$(dirname "$0")/vet_seeded.sh" "$ID" "9$K"
