#!/bin/sh
# tools/selftest.sh <patch file | revert:<commit>> <property id> [tier] [seed]
# Applies a property-breaking patch to a scratch copy of /repo (outside /repo and /verif), runs the
# property's check against the copy (VERIF_REPO), prints the outcome and removes the copy.
# Exit 0 if the check reported a violation (exit 1 of the check), 1 otherwise.
set -u
PATCH="$1"; case "$PATCH" in revert:*) ;; /*) ;; *) PATCH="$(pwd)/$PATCH" ;; esac; ID="$2"; TIER="${3:-quick}"; SEED="${4:-1}"
VERIF_DIR="$(cd "$(dirname "$0")/.." && pwd)"
SCRATCH="$(mktemp -d /tmp/verif-selftest-XXXXXX)"
trap 'rm -rf "$SCRATCH"' EXIT
cp -r /repo/. "$SCRATCH/"
case "$PATCH" in
  revert:*) C="${PATCH#revert:}"; ( cd "$SCRATCH" && git diff "$C" "$C^" | git apply ) || { echo "SELFTEST: cannot revert $C"; exit 2; } ;;
  *) ( cd "$SCRATCH" && { git apply "$PATCH" 2>/dev/null || git apply -3 "$PATCH" 2>/dev/null || patch -p1 -F3 -s --no-backup-if-mismatch < "$PATCH" >/dev/null 2>&1; } ) || { echo "SELFTEST: patch does not apply: $PATCH"; exit 2; } ;;
esac
( cd "$SCRATCH" && go build ./... ) || { echo "SELFTEST: mutant does not compile"; exit 2; }
if [ "${SELFTEST_SUITE:-0}" = 1 ]; then
  ( cd "$SCRATCH" && go test -vet=off -count=1 ./... >/dev/null 2>&1 ) && echo "SELFTEST: repository suite passes with the patch" || echo "SELFTEST: repository suite FAILS with the patch"
fi
OUT="$(cd "$VERIF_DIR" && VERIF_REPO="$SCRATCH" VERIF_SELFTEST=1 ./check "$ID" --tier "$TIER" --seed "$SEED" 2>&1)"
CODE=$?
echo "$OUT" | grep -E "VIOLATION|violation|INCONCLUSIVE|evaluations" | cut -c1-400
echo "SELFTEST: $PATCH on $ID ($TIER, seed $SEED) -> exit $CODE"
[ "$CODE" = 1 ]
