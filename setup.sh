#!/bin/sh
# Run once after a fresh restore, offline: compiles the driver and the property test binary from
# files on disk only (module cache + /repo), which also warms the Go build cache.
set -eu
cd "$(dirname "$0")/harness"
export GOFLAGS=-mod=mod GOPROXY=off GOSUMDB=off GOTOOLCHAIN=local
mkdir -p ../.work/bin
go build -o ../.work/bin/vcheck.setup ./cmd/vcheck
go test -c -o ../.work/bin/props.setup.test ./props
rm -f ../.work/bin/vcheck.setup ../.work/bin/props.setup.test
echo "setup ok"
